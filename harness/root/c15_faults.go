package qframe

// C15: I/O failures are reported, never swallowed or turned into partial data.

import (
	"errors"

	"github.com/tobgu/qframe/config/csv"
	"github.com/tobgu/qframe/internal/vx"
)

var vxBoom = errors.New("boom")

// vxFailReader delivers d in chunks and fails with a non-EOF error once failAt bytes were delivered.
type vxFailReader struct {
	d        []byte
	pos      int
	failAt   int
	chunk    int  // max bytes per Read (0: as many as fit)
	withData bool // the failing call also delivers the last bytes (allowed by io.Reader)
}

func (r *vxFailReader) Read(p []byte) (int, error) {
	if r.pos >= r.failAt {
		return 0, vxBoom
	}
	if r.withData && r.failAt-r.pos <= len(p) && (r.chunk == 0 || r.failAt-r.pos <= r.chunk) {
		n := copy(p, r.d[r.pos:r.failAt])
		r.pos += n
		return n, vxBoom
	}
	n := r.failAt - r.pos
	if len(p) < n {
		n = len(p)
	}
	if r.chunk > 0 && n > r.chunk {
		n = r.chunk
	}
	copy(p, r.d[r.pos:r.pos+n])
	r.pos += n
	return n, nil
}

// VX_C15_readcsv: the reader fails after failAt bytes (symbolic, 0..len): ReadCSV must report it.
func VX_C15_readcsv() {
	doc := []byte(vx.ParamStr("doc"))
	failAt := vxConc(vx.IntN(0, len(doc)), len(doc)+1)
	chunk := vx.ParamInt("chunk")
	var opts []csv.ConfigFunc
	if vx.HasParam("types") {
		opts = append(opts, csv.Types(map[string]string{"a": vx.ParamStr("types"), "b": vx.ParamStr("types")}))
	}
	f := ReadCSV(&vxFailReader{d: doc, failAt: failAt, chunk: chunk, withData: vx.Bool()}, opts...)
	vx.Check(f.Err != nil, "a failing reader is reported through Err")
	vx.Check(f.Len() == -1, "no rows are exposed after a read failure")
	vx.Reach("end")
}

// vxFailWriter accepts okCalls Write calls (or okBytes bytes) and then fails.
type vxFailWriter struct {
	okCalls int
	calls   int
	short   bool // the failing call writes part of the data
	got     []byte
	failed  bool
}

func (w *vxFailWriter) Write(p []byte) (int, error) {
	w.calls++
	if w.calls > w.okCalls {
		w.failed = true
		if w.short && len(p) > 1 {
			w.got = append(w.got, p[:1]...)
			return 1, vxBoom
		}
		return 0, vxBoom
	}
	w.got = append(w.got, p...)
	return len(p), nil
}

// VX_C15_write: the writer fails at its k-th call: ToCSV / ToJSON must return an error
// unless everything was accepted.
func VX_C15_write() {
	n := vx.ParamInt("n")
	P := n + 1
	names := []string{"a", "s"}
	cols := []vxCol{vxMakeCol("int", P, 0), vxMakeColLite("string", P)}
	for _, sv := range cols[1].s {
		vx.Assume(vx.Or(sv == "x", sv == "\""))
	}
	ix := make([]uint32, n)
	for k := range ix {
		ix[k] = uint32(n - k)
	}
	f := vxFrame(names, cols, ix)
	okCalls := vxConc(vx.IntN(0, 6), 7)
	w := &vxFailWriter{okCalls: okCalls, short: vx.Bool()}
	var err error
	switch vx.ParamStr("op") {
	case "tocsv":
		err = f.ToCSV(w)
	case "tojson":
		err = f.ToJSON(w)
	}
	vx.Check(vx.Implies(w.failed, err != nil), "a failed write is reported")
	vx.Reach("end")
}
