package qframe

// C15: I/O failures are reported, never swallowed or turned into partial data.

import (
	"errors"
	"io"

	"github.com/tobgu/qframe/config/csv"
	"github.com/tobgu/qframe/internal/vx"
)

var vxBoom = errors.New("boom")

// vxWrapEOF is a genuine failure whose Unwrap chain contains io.EOF (as in "read tcp: connection reset: EOF").
type vxWrapEOF struct{}

func (vxWrapEOF) Error() string { return "connection closed by peer: EOF" }
func (vxWrapEOF) Unwrap() error { return io.EOF }

// vxFailReader delivers d in chunks and fails with a non-EOF error once failAt bytes were delivered.
type vxFailReader struct {
	err      error // the failure
	d        []byte
	pos      int
	failAt   int
	chunk    int  // max bytes per Read (0: as many as fit)
	withData bool // the failing call also delivers the last bytes (allowed by io.Reader)
}

func (r *vxFailReader) Read(p []byte) (int, error) {
	if r.pos >= r.failAt {
		return 0, r.err
	}
	if r.withData && r.failAt-r.pos <= len(p) && (r.chunk == 0 || r.failAt-r.pos <= r.chunk) {
		n := copy(p, r.d[r.pos:r.failAt])
		r.pos += n
		return n, r.err
	}
	n := r.failAt - r.pos
	if len(p) < n {
		n = len(p)
	}
	if r.chunk > 0 && n > r.chunk {
		n = r.chunk
	}
	copy(p, r.d[r.pos:r.pos+n])
	r.pos += n
	return n, nil
}

// VX_C15_readcsv: the reader fails after failAt bytes (symbolic, 0..len): ReadCSV must report it.
func VX_C15_readcsv() {
	doc := []byte(vx.ParamStr("doc"))
	failAt := vxConc(vx.IntN(0, len(doc)), len(doc)+1)
	chunk := vx.ParamInt("chunk")
	var opts []csv.ConfigFunc
	if vx.HasParam("types") {
		opts = append(opts, csv.Types(map[string]string{"a": vx.ParamStr("types"), "b": vx.ParamStr("types")}))
	}
	var ferr error = vxBoom
	if vx.Bool() {
		ferr = vxWrapEOF{} // not io.EOF itself: a failure, whatever it wraps
	} else if vx.Bool() {
		ferr = io.ErrUnexpectedEOF // what truncated gzip streams, short HTTP bodies and LimitReaders report
	}
	f := ReadCSV(&vxFailReader{d: doc, failAt: failAt, chunk: chunk, withData: vx.Bool(), err: ferr}, opts...)
	vx.Check(f.Err != nil, "a failing reader is reported through Err")
	vx.Check(f.Len() == -1, "no rows are exposed after a read failure")
	vx.Reach("end")
}

// vxFailWriter accepts okCalls Write calls (or okBytes bytes) and then fails.
type vxFailWriter struct {
	okCalls int
	calls   int
	short   bool // the failing call writes part of the data
	got     []byte
	failed  bool
}

func (w *vxFailWriter) Write(p []byte) (int, error) {
	w.calls++
	if w.calls > w.okCalls {
		w.failed = true
		if w.short && len(p) > 1 {
			w.got = append(w.got, p[:1]...)
			return 1, vxBoom
		}
		return 0, vxBoom
	}
	w.got = append(w.got, p...)
	return len(p), nil
}

// VX_C15_write: the writer fails at its k-th call: ToCSV / ToJSON must return an error
// unless everything was accepted.
func VX_C15_write() {
	n := vx.ParamInt("n")
	P := n + 1
	names := []string{"a", "s"}
	cols := []vxCol{vxMakeCol("int", P, 0), vxMakeColLite("string", P)}
	for _, sv := range cols[1].s {
		vx.Assume(vx.Or(sv == "x", sv == "\""))
	}
	ix := make([]uint32, n)
	for k := range ix {
		ix[k] = uint32(n - k)
	}
	f := vxFrame(names, cols, ix)
	okCalls := vxConc(vx.IntN(0, 6), 7)
	w := &vxFailWriter{okCalls: okCalls, short: vx.Bool()}
	var err error
	switch vx.ParamStr("op") {
	case "tocsv":
		err = f.ToCSV(w)
	case "tojson":
		err = f.ToJSON(w)
	}
	vx.Check(vx.Implies(w.failed, err != nil), "a failed write is reported")
	vx.Reach("end")
}

// vxByteFailWriter accepts okBytes bytes and then fails.
type vxByteFailWriter struct {
	okBytes int
	n       int
	failed  bool
}

func (w *vxByteFailWriter) Write(p []byte) (int, error) {
	if w.n+len(p) > w.okBytes {
		k := w.okBytes - w.n
		if k < 0 {
			k = 0
		}
		w.n += k
		w.failed = true
		return k, vxBoom
	}
	w.n += len(p)
	return len(p), nil
}

// VX_C15_write_big: a large frame (more rows and more text than any internal buffer);
// the writer fails a few bytes before the end of the output.
func VX_C15_write_big() {
	n := vx.ParamInt("n")
	a := make([]int, n)
	for k := range a {
		a[k] = 100000 + k
	}
	f := New(map[string]interface{}{"a": a})
	full := &vxBuf{}
	var err error
	if vx.ParamStr("op") == "tojson" {
		err = f.ToJSON(full)
	} else {
		err = f.ToCSV(full)
	}
	vx.Check(err == nil, "clean writer: no error")
	short := vxConc(vx.IntN(1, 3), 4) // the solver picks how many bytes before the end
	w := &vxByteFailWriter{okBytes: len(full.b) - short}
	if vx.ParamStr("op") == "tojson" {
		err = f.ToJSON(w)
	} else {
		err = f.ToCSV(w)
	}
	vx.Check(w.failed, "the writer did fail")
	vx.Check(err != nil, "a write failure near the end of a large output is reported")
	vx.Reach("end")
}

// VX_C15_readjson: the reader fails after failAt bytes of a JSON document: ReadJSON must report it.
// (encoding/json's decoder is represented by the reference decoder of C14, which hands the
// reader's error on as the real one does.)
func VX_C15_readjson() {
	vx.ModelJSONStream(c14newStream)
	doc := []byte(`[{"a":1.5,"b":"x"},{"a":2,"b":null}]`)
	// every offset inside the document; a reader that fails only after the closing bracket has been
	// delivered is never asked again by a decoder that has its complete value
	failAt := vxConc(vx.IntN(0, len(doc)-1), len(doc))
	var ferr error = vxBoom
	if vx.Bool() {
		ferr = vxWrapEOF{}
	}
	f := ReadJSON(&vxFailReader{d: doc, failAt: failAt, chunk: vx.ParamInt("chunk"), withData: vx.Bool(), err: ferr})
	vx.Check(f.Err != nil, "a failing reader is reported through Err")
	vx.Check(f.Len() == -1, "no rows are exposed after a read failure")
	g := ReadJSON(&vxFailReader{d: doc, failAt: len(doc), chunk: vx.ParamInt("chunk"), err: io.EOF})
	vx.Check(g.Err == nil && g.Len() == 2, "the same document from a healthy reader is read")
	vx.Reach("end")
}
