package qframe

// C10: invalid use yields Err (never a panic); an error is sticky.

import (
	"github.com/tobgu/qframe/config/csv"
	"github.com/tobgu/qframe/config/eval"
	"github.com/tobgu/qframe/config/groupby"
	"github.com/tobgu/qframe/config/newqf"
	"github.com/tobgu/qframe/internal/vx"
	"github.com/tobgu/qframe/types"
)

func c10frame() (QFrame, []string, []vxCol, []uint32) {
	P := 3
	names := []string{"a", "f", "c", "s", "e"}
	cols := []vxCol{vxMakeColLite("int", P), vxMakeColLite("float", P), vxMakeColLite("bool", P), vxMakeColLite("string", P), vxMakeColLite("enum", P)}
	ix := []uint32{2, 0}
	return vxFrame(names, cols, ix), names, cols, ix
}

var c10calls int

func c10cb() { c10calls++ }

// c10invalid applies one invalid operation; every case must end in Err != nil.
func c10invalid(f QFrame, which string) QFrame {
	type weird struct{ x int }
	switch which {
	case "filter_unknown_col":
		return f.Filter(Filter{Column: "zz", Comparator: "=", Arg: 1})
	case "filter_unknown_cmp_int":
		return f.Filter(Filter{Column: "a", Comparator: "~~", Arg: vx.Int()})
	case "filter_unknown_cmp_float":
		return f.Filter(Filter{Column: "f", Comparator: "~~", Arg: 1.5})
	case "filter_unknown_cmp_bool":
		return f.Filter(Filter{Column: "c", Comparator: "<", Arg: true})
	case "filter_unknown_cmp_string":
		return f.Filter(Filter{Column: "s", Comparator: "~~", Arg: "x"})
	case "filter_unknown_cmp_enum":
		return f.Filter(Filter{Column: "e", Comparator: "~~", Arg: "b"})
	case "filter_cmp_not_string":
		return f.Filter(Filter{Column: "a", Comparator: 17, Arg: 1})
	case "filter_fn_wrong_type_int":
		return f.Filter(Filter{Column: "a", Comparator: func(x float64) bool { c10cb(); return true }})
	case "filter_fn_wrong_type_string":
		return f.Filter(Filter{Column: "s", Comparator: func(x string) bool { c10cb(); return true }})
	case "filter_fn_wrong_type_enum":
		return f.Filter(Filter{Column: "e", Comparator: func(x int) bool { c10cb(); return true }})
	case "filter_arg_wrong_type_int":
		return f.Filter(Filter{Column: "a", Comparator: "=", Arg: "x"})
	case "filter_arg_wrong_type_float":
		return f.Filter(Filter{Column: "f", Comparator: "=", Arg: "x"})
	case "filter_arg_int_for_float":
		return f.Filter(Filter{Column: "f", Comparator: "=", Arg: vx.Int()})
	case "filter_arg_nan":
		nan := vx.Float64()
		vx.Assume(nan != nan)
		return f.Filter(Filter{Column: "f", Comparator: "<", Arg: nan})
	case "filter_arg_wrong_type_bool":
		return f.Filter(Filter{Column: "c", Comparator: "=", Arg: 1})
	case "filter_arg_wrong_type_string":
		return f.Filter(Filter{Column: "s", Comparator: "=", Arg: 1})
	case "filter_arg_wrong_type_enum":
		return f.Filter(Filter{Column: "e", Comparator: "=", Arg: 1.5})
	case "filter_arg_struct":
		return f.Filter(Filter{Column: "a", Comparator: "=", Arg: weird{1}})
	case "filter_arg_nil_cmp_lt":
		return f.Filter(Filter{Column: "a", Comparator: "<"})
	case "filter_arg_mixed_list":
		return f.Filter(Filter{Column: "a", Comparator: "in", Arg: []interface{}{1, "x"}})
	case "filter_arg_list_for_lt":
		return f.Filter(Filter{Column: "a", Comparator: "<", Arg: []int{1, 2}})
	case "filter_unknown_arg_col":
		return f.Filter(Filter{Column: "a", Comparator: "=", Arg: types.ColumnName("zz")})
	case "filter_arg_col_type_mismatch":
		return f.Filter(Filter{Column: "a", Comparator: "=", Arg: types.ColumnName("s")})
	case "filter_arg_col_type_mismatch2":
		return f.Filter(Filter{Column: "s", Comparator: "=", Arg: types.ColumnName("e")})
	case "filter_fn2_without_col":
		return f.Filter(Filter{Column: "a", Comparator: func(x, y int) bool { c10cb(); return true }, Arg: 1})
	case "filter_enum_unknown_value":
		return f.Filter(Filter{Column: "e", Comparator: "=", Arg: "nosuch"})
	case "filter_bad_regex":
		return f.Filter(Filter{Column: "s", Comparator: "like", Arg: "(("})
	case "filter_bad_regex_enum":
		return f.Filter(Filter{Column: "e", Comparator: "ilike", Arg: "(("})
	case "and_empty":
		return f.Filter(And())
	case "or_empty":
		return f.Filter(Or())
	case "not_invalid":
		return f.Filter(Not(And()))
	case "nested_invalid":
		return f.Filter(Or(Filter{Column: "a", Comparator: "=", Arg: 1}, And(Or())))
	case "inverse_invalid":
		return f.Filter(Filter{Column: "a", Comparator: "~~", Arg: 1, Inverse: true})
	case "sort_unknown":
		return f.Sort(Order{Column: "a"}, Order{Column: "zz"})
	case "select_unknown":
		return f.Select("a", "zz")
	case "slice_bad":
		a, b := vx.Int(), vx.Int()
		vx.Assume(a < 0 || a > b || b > 2)
		return f.Slice(a, b)
	case "copy_unknown":
		return f.Copy("x", "zz")
	case "copy_self_unknown":
		return f.Copy("zz", "zz")
	case "apply_copy_self_unknown":
		return f.Apply(Instruction{Fn: types.ColumnName("zz"), DstCol: "zz"})
	case "eval_val_unknown_self":
		return f.Eval("zz", Val(types.ColumnName("zz")))
	case "or_all_rows_then_invalid":
		return f.Filter(Or(And(Filter{Column: "a", Comparator: "isnotnull"}), Filter{Column: "zz", Comparator: "=", Arg: 1}))
	case "or_complement_then_invalid":
		lo := Filter{Column: "a", Comparator: ">", Arg: vx.Int()}
		return f.Filter(Or(And(lo), Not(And(lo)), Filter{Column: "a", Comparator: "~~", Arg: 1}))
	case "and_none_then_invalid":
		return f.Filter(And(Filter{Column: "a", Comparator: "isnull"}, Filter{Column: "zz", Comparator: "=", Arg: 1}))
	case "empty_frame_invalid_filter":
		return f.Slice(0, 0).Filter(Or(And(Filter{Column: "a", Comparator: "isnotnull"}), Filter{Column: "zz", Comparator: "=", Arg: 1}))
	case "empty_frame_or_invalid_leaf_then_nested":
		// the invalid member comes first, a valid nested clause after it, and there are no rows to merge
		return f.Slice(0, 0).Filter(Or(Filter{Column: "zz", Comparator: "=", Arg: 1},
			And(Filter{Column: "a", Comparator: "<", Arg: 3}, Filter{Column: "a", Comparator: func(x int) bool { c10cb(); return true }})))
	case "filtered_out_or_invalid_leaf_then_nested":
		return f.Filter(Filter{Column: "a", Comparator: "isnull"}).Filter(Or(Filter{Column: "zz", Comparator: "=", Arg: 1},
			Not(Filter{Column: "a", Comparator: "<", Arg: 3}), And(Filter{Column: "a", Comparator: "<", Arg: 3})))
	case "empty_frame_or_nested_invalid_then_nested":
		return f.Slice(0, 0).Filter(Or(And(Filter{Column: "zz", Comparator: "=", Arg: 1}), And(Filter{Column: "a", Comparator: "<", Arg: 3})))
	case "or_invalid_leaf_then_nested":
		return f.Filter(Or(Filter{Column: "a", Comparator: "~~", Arg: 1}, And(Filter{Column: "a", Comparator: "<", Arg: vx.Int()}), Not(Filter{Column: "f", Comparator: "isnull"})))
	case "and_nested_then_invalid_on_empty":
		return f.Slice(0, 0).Filter(And(Or(Filter{Column: "a", Comparator: "<", Arg: 3}), Filter{Column: "zz", Comparator: "=", Arg: 1}))
	case "not_invalid_on_empty":
		return f.Slice(0, 0).Filter(Not(Filter{Column: "zz", Comparator: "=", Arg: 1}))
	case "empty_frame_invalid_apply":
		return f.Slice(0, 0).Apply(Instruction{Fn: func(x float64) int { c10cb(); return 0 }, DstCol: "z", SrcCol1: "a"})
	case "empty_frame_invalid_sort":
		return f.Slice(0, 0).Sort(Order{Column: "zz"})
	case "copy_badname":
		return f.Copy("'quoted'", "a")
	case "apply_unknown_src":
		return f.Apply(Instruction{Fn: func(x int) int { c10cb(); return x }, DstCol: "z", SrcCol1: "zz"})
	case "apply_unknown_src2":
		return f.Apply(Instruction{Fn: func(x, y int) int { c10cb(); return x }, DstCol: "z", SrcCol1: "a", SrcCol2: "zz"})
	case "apply_fn_wrong_type":
		return f.Apply(Instruction{Fn: func(x float64) int { c10cb(); return 0 }, DstCol: "z", SrcCol1: "a"})
	case "apply_fn_wrong_type_string":
		return f.Apply(Instruction{Fn: func(x string) int { c10cb(); return 0 }, DstCol: "z", SrcCol1: "s"})
	case "apply_fn_wrong_type_enum":
		return f.Apply(Instruction{Fn: func(x int) int { c10cb(); return 0 }, DstCol: "z", SrcCol1: "e"})
	case "apply_fn0_invalid":
		return f.Apply(Instruction{Fn: weird{1}, DstCol: "z"})
	case "apply_fn0_func_wrong":
		return f.Apply(Instruction{Fn: func() int8 { c10cb(); return 0 }, DstCol: "z"})
	case "apply_fn2_mismatched_cols":
		return f.Apply(Instruction{Fn: func(x, y int) int { c10cb(); return x }, DstCol: "z", SrcCol1: "a", SrcCol2: "f"})
	case "apply_fn2_wrong_fn":
		return f.Apply(Instruction{Fn: func(x, y float64) float64 { c10cb(); return x }, DstCol: "z", SrcCol1: "a", SrcCol2: "a"})
	case "apply_fn2_mismatched_string_enum":
		return f.Apply(Instruction{Fn: func(x, y *string) *string { c10cb(); return x }, DstCol: "z", SrcCol1: "s", SrcCol2: "e"})
	case "apply_unknown_builtin":
		return f.Apply(Instruction{Fn: "NoSuchBuiltin", DstCol: "z", SrcCol1: "s"})
	case "apply_unknown_builtin_int":
		return f.Apply(Instruction{Fn: "NoSuchBuiltin", DstCol: "z", SrcCol1: "a"})
	case "apply_unknown_builtin2":
		return f.Apply(Instruction{Fn: "NoSuchBuiltin", DstCol: "z", SrcCol1: "s", SrcCol2: "s"})
	case "apply_bad_dst":
		return f.Apply(Instruction{Fn: 1, DstCol: "$z"})
	case "apply_empty_dst":
		return f.Apply(Instruction{Fn: 1, DstCol: ""})
	case "apply_copy_unknown":
		return f.Apply(Instruction{Fn: types.ColumnName("zz"), DstCol: "z"})
	case "filteredapply_invalid_clause":
		return f.FilteredApply(And(), Instruction{Fn: func() int { c10cb(); return 1 }, DstCol: "z"})
	case "filteredapply_invalid_instr":
		return f.FilteredApply(Filter{Column: "a", Comparator: "=", Arg: 1}, Instruction{Fn: weird{}, DstCol: "z"})
	case "eval_unknown_fn":
		return f.Eval("z", Expr("nosuch", types.ColumnName("a"), 1))
	case "eval_fn_of_other_ctx":
		// a function registered in another context is unknown here (default context, then a fresh one)
		other := eval.NewDefaultCtx()
		other.SetFunc("twice", func(x int) int { return 2 * x })
		_ = f.Eval("z", Expr("twice", types.ColumnName("a")), eval.EvalContext(other))
		if vx.Bool() {
			return f.Eval("z", Expr("twice", types.ColumnName("a")))
		}
		return f.Eval("z", Expr("twice", types.ColumnName("a")), eval.EvalContext(eval.NewDefaultCtx()))
	case "eval_bad_dst":
		return f.Eval("$z", Expr("+", types.ColumnName("a"), 1))
	case "distinct_unknown":
		return f.Distinct(groupby.Columns("zz"))
	case "rownums_bad_name":
		return f.WithRowNums("")
	case "groupby_unknown":
		return f.GroupBy(groupby.Columns("zz")).Aggregate(Aggregation{Fn: "sum", Column: "a"})
	case "empty_frame_groupby_unknown": // validation comes before any "nothing to do" shortcut
		return f.Slice(1, 1).GroupBy(groupby.Columns("zz")).Aggregate(Aggregation{Fn: "sum", Column: "a"})
	case "empty_frame_distinct_unknown":
		return f.Slice(0, 0).Distinct(groupby.Columns("zz"))
	case "empty_frame_groupby_unknown_agg":
		return f.Slice(0, 0).GroupBy(groupby.Columns("c")).Aggregate(Aggregation{Fn: "sum", Column: "zz"})
	case "filter_bad_regex_twice": // the same malformed pattern is rejected every time it is used
		g := f.Filter(Filter{Column: "s", Comparator: "like", Arg: "%a[c"})
		if g.Err == nil {
			return g
		}
		return f.Filter(Filter{Column: "s", Comparator: "like", Arg: "%a[c"})
	case "filter_bad_regex_twice_ilike":
		g := f.Filter(Filter{Column: "e", Comparator: "ilike", Arg: "a(b"})
		if g.Err == nil {
			return g
		}
		h := f.Filter(Or(Filter{Column: "a", Comparator: "=", Arg: 1}, Filter{Column: "e", Comparator: "ilike", Arg: "a(b"}))
		if h.Err == nil {
			return h
		}
		return f.Slice(0, 0).Filter(Filter{Column: "e", Comparator: "ilike", Arg: "a(b"})
	case "apply_second_after_failed_first": // after a failing instruction no later instruction runs (no callback)
		return f.Apply(Instruction{Fn: weird{}, DstCol: "z"}, Instruction{Fn: func() int { c10cb(); return 1 }, DstCol: "y"}, Instruction{Fn: func(x int) int { c10cb(); return x }, DstCol: "w", SrcCol1: "a"})
	case "filteredapply_second_after_failed_first":
		return f.FilteredApply(Filter{Column: "a", Comparator: ">", Arg: 0}, Instruction{Fn: "nosuch", DstCol: "z", SrcCol1: "s"}, Instruction{Fn: func(x int) int { c10cb(); return x }, DstCol: "w", SrcCol1: "a"})
	case "new_enum_on_int_column":
		return New(map[string]interface{}{"a": []int{1, 2}, "s": []string{"x", "y"}}, newqf.Enums(map[string][]string{"a": nil}))
	case "new_enum_on_const_bool":
		return New(map[string]interface{}{"a": ConstBool{Val: true, Count: 2}, "s": []string{"x", "y"}}, newqf.Enums(map[string][]string{"a": {"x"}}))
	case "aggregate_unknown_col":
		return f.GroupBy(groupby.Columns("c")).Aggregate(Aggregation{Fn: "sum", Column: "zz"})
	case "aggregate_unknown_fn":
		return f.GroupBy(groupby.Columns("c")).Aggregate(Aggregation{Fn: "nosuch", Column: "a"})
	case "aggregate_fn_wrong_type":
		return f.GroupBy(groupby.Columns("c")).Aggregate(Aggregation{Fn: func(x []float64) float64 { c10cb(); return 0 }, Column: "a"})
	case "aggregate_fn_wrong_type_string":
		return f.GroupBy(groupby.Columns("c")).Aggregate(Aggregation{Fn: func(x []string) string { c10cb(); return "" }, Column: "s"})
	case "aggregate_fn_wrong_type_enum":
		return f.GroupBy(groupby.Columns("c")).Aggregate(Aggregation{Fn: 17, Column: "e"})
	case "aggregate_on_group_col":
		return f.GroupBy(groupby.Columns("c")).Aggregate(Aggregation{Fn: "majority", Column: "c"})
	case "aggregate_duplicate":
		return f.GroupBy(groupby.Columns("c")).Aggregate(Aggregation{Fn: "sum", Column: "a"}, Aggregation{Fn: "max", Column: "a"})
	case "aggregate_string_builtin":
		return f.GroupBy(groupby.Columns("c")).Aggregate(Aggregation{Fn: "sum", Column: "s"})
	}
	panic("unknown case " + which)
}

func VX_C10_invalid() {
	f, names, cols, ix := c10frame()
	c10calls = 0
	e := c10invalid(f, vx.ParamStr("case"))
	vx.Check(e.Err != nil, "invalid use is reported through Err")
	vx.Check(e.Len() == -1, "failed frame exposes no rows")
	vx.Check(c10calls == 0, "no callback invoked by an invalid operation")
	vxCheckFrame(f, names, cols, ix, "receiver")
	vx.Reach("end")
}

// VX_C10_views: non-Must views report errors; serialisers with invalid options too.
func VX_C10_views() {
	f, _, _, _ := c10frame()
	_, e1 := f.IntView("f")
	_, e2 := f.FloatView("a")
	_, e3 := f.BoolView("s")
	_, e4 := f.StringView("e")
	_, e5 := f.EnumView("s")
	_, e6 := f.IntView("zz")
	_, e7 := f.StringView("zz")
	vx.Check(e1 != nil && e2 != nil && e3 != nil && e4 != nil && e5 != nil && e6 != nil && e7 != nil, "view of wrong type / unknown column is an error")
	w := &vxBuf{}
	vx.Check(f.ToCSV(w, csv.Columns([]string{"a"})) != nil, "ToCSV: wrong number of columns")
	vx.Check(f.ToCSV(w, csv.Columns([]string{"a", "f", "c", "s", "zz"})) != nil, "ToCSV: unknown column")
	vx.Reach("end")
}

// VX_C10_sticky: after the first error every continuation keeps it, invokes no callback.
func VX_C10_sticky() {
	f, _, _, _ := c10frame()
	e := c10invalid(f, vx.ParamStr("first"))
	vx.Assume(e.Err != nil)
	c10calls = 0
	first := e.Err
	same := func(q QFrame, what string) {
		vx.Check(q.Err != nil, what+": error kept")
		vx.Check(q.Err == first, what+": same error")
		vx.Check(q.Len() == -1, what+": no rows")
	}
	same(e.Filter(Filter{Column: "a", Comparator: func(x int) bool { c10cb(); return true }}), "Filter")
	same(e.Filter(And(Filter{Column: "a", Comparator: "=", Arg: 1})), "Filter(And)")
	same(e.Filter(Or(Filter{Column: "a", Comparator: "=", Arg: 1})), "Filter(Or)")
	same(e.Filter(Not(Filter{Column: "a", Comparator: "=", Arg: 1})), "Filter(Not)")
	same(e.Filter(Not(And(Filter{Column: "a", Comparator: "=", Arg: 1}))), "Filter(Not(And))")
	same(e.Sort(Order{Column: "a"}), "Sort")
	same(e.Slice(0, 1), "Slice")
	same(e.Select("a"), "Select")
	same(e.Drop("a"), "Drop")
	same(e.Copy("z", "a"), "Copy")
	same(e.Apply(Instruction{Fn: func() int { c10cb(); return 1 }, DstCol: "z"}), "Apply0")
	same(e.Apply(Instruction{Fn: func(x int) int { c10cb(); return 1 }, DstCol: "z", SrcCol1: "a"}), "Apply1")
	same(e.Apply(Instruction{Fn: func(x, y int) int { c10cb(); return 1 }, DstCol: "z", SrcCol1: "a", SrcCol2: "a"}), "Apply2")
	same(e.FilteredApply(Filter{Column: "a", Comparator: func(x int) bool { c10cb(); return true }}, Instruction{Fn: func() int { c10cb(); return 1 }, DstCol: "z"}), "FilteredApply")
	same(e.Eval("z", Expr("+", types.ColumnName("a"), 1)), "Eval")
	same(e.Eval("z", Val(types.ColumnName("a"))), "Eval(col)")
	same(e.Eval("z", Val(1)), "Eval(const)")
	same(e.WithRowNums("n"), "WithRowNums")
	same(e.Distinct(), "Distinct")
	g := e.GroupBy(groupby.Columns("c"))
	vx.Check(g.Err != nil, "GroupBy passes the error on")
	same(g.Aggregate(Aggregation{Fn: func(x []int) int { c10cb(); return 0 }, Column: "a"}), "Aggregate")
	_, qerr := g.QFrames()
	vx.Check(qerr != nil, "QFrames passes the error on")
	w := &vxBuf{}
	vx.Check(e.ToCSV(w) != nil, "ToCSV returns an error")
	vx.Check(e.ToJSON(w) != nil, "ToJSON returns an error")
	vx.Check(e.ToSQL(nil) != nil, "ToSQL returns an error")
	vx.Check(len(w.b) == 0, "nothing written for a failed frame")
	vx.Check(c10calls == 0, "no user callback invoked after the first error")
	vx.Reach("end")
}
