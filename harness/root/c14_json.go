package qframe

// C14: ToJSON emits valid JSON that denotes the frame.
// The harness reads the output with a small reference reader for the subset
// [{"k":v,...},...] written from RFC 8259 (strings with escapes, UTF-8
// well-formedness, literals; numbers are the engine's number-text tokens).

import (
	"bytes"
	"encoding/json"
	"errors"
	"io"
	"math"
	"strconv"
	"unicode/utf8"

	"github.com/tobgu/qframe/config/groupby"
	"github.com/tobgu/qframe/config/newqf"
	qfio "github.com/tobgu/qframe/internal/io"
	"github.com/tobgu/qframe/internal/vx"
)

type c14rd struct {
	b     []byte
	pos   int
	ok    bool
	short bool // the text ended before the construct was complete
}

func (r *c14rd) expect(c byte) {
	if r.pos < len(r.b) && r.b[r.pos] == c {
		r.pos++
		return
	}
	if r.pos >= len(r.b) {
		r.short = true
	}
	r.ok = false
}

func (r *c14rd) peek(c byte) bool { return r.pos < len(r.b) && r.b[r.pos] == c }

func c14hex(c byte) (int, bool) {
	switch {
	case '0' <= c && c <= '9':
		return int(c - '0'), true
	case 'a' <= c && c <= 'f':
		return int(c-'a') + 10, true
	case 'A' <= c && c <= 'F':
		return int(c-'A') + 10, true
	}
	return 0, false
}

// str parses a JSON string token and returns the denoted text as UTF-8.
func (r *c14rd) str() string {
	var out []byte
	r.expect('"')
	for r.ok {
		if r.pos >= len(r.b) {
			r.ok, r.short = false, true
			break
		}
		c := r.b[r.pos]
		if c == '"' {
			r.pos++
			break
		}
		if c == '\\' {
			if r.pos+1 >= len(r.b) {
				r.ok, r.short = false, true
				break
			}
			e := r.b[r.pos+1]
			r.pos += 2
			switch e {
			case '"', '\\', '/':
				out = append(out, e)
			case 'b':
				out = append(out, '\b')
			case 'f':
				out = append(out, '\f')
			case 'n':
				out = append(out, '\n')
			case 'r':
				out = append(out, '\r')
			case 't':
				out = append(out, '\t')
			case 'u':
				if r.pos+4 > len(r.b) {
					r.ok, r.short = false, true
					break
				}
				v := 0
				for k := 0; k < 4; k++ {
					h, ok := c14hex(r.b[r.pos+k])
					if !ok {
						r.ok = false
					}
					v = v*16 + h
				}
				r.pos += 4
				out = utf8.AppendRune(out, rune(v))
			default:
				r.ok = false
			}
			continue
		}
		if c < 0x20 {
			r.ok = false // unescaped control character
			break
		}
		if c < 0x80 {
			out = append(out, c)
			r.pos++
			continue
		}
		rv, w := utf8.DecodeRune(r.b[r.pos:])
		if rv == utf8.RuneError && w == 1 {
			r.ok = false // malformed UTF-8 in the output
			break
		}
		out = append(out, r.b[r.pos:r.pos+w]...)
		r.pos += w
	}
	return string(out)
}

// token reads a literal/number token up to the next ',' or '}'.
func (r *c14rd) token() string {
	start := r.pos
	for r.pos < len(r.b) && r.b[r.pos] != ',' && r.b[r.pos] != '}' {
		r.pos++
	}
	if r.pos >= len(r.b) {
		r.short = true
	}
	return string(r.b[start:r.pos])
}

// c14valid is the text a cell/name denotes: invalid UTF-8 bytes become U+FFFD.
func c14valid(s string) string {
	var out []byte
	for i := 0; i < len(s); {
		c := s[i]
		if c < 0x80 {
			out = append(out, c)
			i++
			continue
		}
		rv, w := utf8.DecodeRuneInString(s[i:])
		if rv == utf8.RuneError && w == 1 {
			out = append(out, "\xef\xbf\xbd"...)
			i++
			continue
		}
		out = append(out, s[i:i+w]...)
		i += w
	}
	return string(out)
}

func c14assume(s string, alpha []byte) {
	for k := 0; k < len(s); k++ {
		ok := false
		for _, a := range alpha {
			ok = vx.Or(ok, s[k] == a)
		}
		vx.Assume(ok)
	}
}

var c14cellAlpha = []byte{'a', '"', '\\', 0x00, 0x1f, '\n', 0x7f, 0x80, 0xC2, 0xE2, 0xA8, 0xA9}
var c14nameAlpha = []byte{'a', '"', '\\', 0x01, 0x7f, 0xC3, 0x80}

func VX_C14_tojson() {
	n := vx.ParamInt("n")
	shape := vx.ParamStr("shape")
	P := n + 1
	var names []string
	var cols []vxCol
	switch shape {
	case "name": // one int column with a symbolic name
		nm := vx.Str(vx.ParamInt("namelen"))
		c14assume(nm, c14nameAlpha)
		vx.Assume(nm[0] != '$')
		if len(nm) > 2 {
			vx.Assume(!(nm[0] == '"' && nm[len(nm)-1] == '"'))
		}
		names, cols = []string{nm}, []vxCol{vxMakeCol("int", P, 0)}
	case "string":
		c := vxCol{typ: "string", s: make([]string, P), null: make([]bool, P)}
		for p := range c.s {
			c.s[p], c.null[p] = vxStrCell(vx.ParamInt("strlen"), p == 1)
			c14assume(c.s[p], c14cellAlpha)
		}
		names, cols = []string{"s"}, []vxCol{c}
	case "mixed":
		names = []string{"a", "b", "c", "e", "f"}
		cols = []vxCol{vxMakeCol("int", P, 0), vxMakeCol("bool", P, 0), vxMakeColLite("string", P), vxMakeColLite("enum", P), vxMakeCol("float", P, 0)}
		for _, sv := range cols[2].s {
			c14assume(sv, []byte{'a', '"', 0xC3})
		}
		for _, v := range cols[4].f {
			vx.Assume(!math.IsInf(v, 0)) // finite or NaN
		}
	case "empty":
		names, cols = []string{"a"}, []vxCol{vxMakeCol("int", P, 0)}
	case "digits": // digit counts 1..17 around the 32-bit boundary of the digit string
		fls := []float64{4294967296, 4294967295, 5123456789, 0.4294967296, 9.999999999, 42949672.96, 99999999999, 1234567890123456, 12345678901234567, 0.000005123456789, 7}
		n = len(fls)
		P = n
		names, cols = []string{"f"}, []vxCol{{typ: "float", f: fls}}
	case "ints": // limits of int and every digit count through the real digit code
		ints := []int{math.MinInt64, math.MaxInt64, math.MinInt64 + 1, -1, 0, 9, 10, 99, 100, 101, 999, 1000, 9999, 10000, 99999, 100000, 123456, 1234567, 99999999, 100000000,
			4294967295, 4294967296, -4294967296, 999999999999, 1000000000000000000, -1000000000000000000, 9223372036854775806, -9223372036854775807, -10, -99, -100}
		n = len(ints)
		P = n
		names, cols = []string{"i"}, []vxCol{{typ: "int", i: ints}}
	case "pow2": // powers of two (the lower rounding interval is narrower there) and of ten, limits, their neighbours
		var fls []float64
		for _, k := range []int{-1074, -1073, -1023, -1022, -1021, -500, -100, -25, -24, -10, -1, 0, 1, 10, 52, 53, 54, 63, 64, 65, 100, 500, 1000, 1023} {
			v := math.Ldexp(1, k)
			fls = append(fls, v, -v)
			if k%3 == 0 {
				fls = append(fls, math.Nextafter(v, 0), math.Nextafter(v, math.Inf(1)))
			}
		}
		for _, v := range []float64{1e-5, 1e-7, 1e15, 1e16, 1e17, 1e21, 1e22, 1e23, 9007199254740993, 9007199254740992, 5e-324, 1.7976931348623157e308, 2.2250738585072014e-308, 2.225073858507201e-308, 123456.7, 0.3, 2.5e-8} {
			fls = append(fls, v)
		}
		n = len(fls)
		P = n
		names, cols = []string{"f"}, []vxCol{{typ: "float", f: fls}}
	case "big":
		// many rows of concrete cells: the text (> 8 KiB) crosses any internal buffer boundary
		n = 700
		if vx.HasParam("rowslo") {
			// a row count picked by the solver from a range around a power of two (buffering by row count)
			lo, hi := vx.ParamInt("rowslo"), vx.ParamInt("rowshi")
			n = lo + vxConc(vx.IntN(0, hi-lo), hi-lo+1)
		}
		P = n
		ic := vxCol{typ: "int", i: make([]int, n)}
		for k := range ic.i {
			ic.i[k] = 1000000 + k
		}
		names, cols = []string{"number"}, []vxCol{ic}
	case "concrete":
		// concrete cells through the real escaping and digit code
		strs := []string{"\uFFFD", "\u2028", "a\u2029b", "\u00e9", "\xff", "\xe2\x80", "\xef\xbf", "tab\tq\"b\\", "\x7f\x00", "\U0001F600", ""}
		fls := []float64{math.Copysign(0, -1), 0, 1.5, -2.5e-7, 1e21, 123456789, 0.1, 5e-324, 1e300, 0.30000000000000004, 0.5123456789}
		n = len(strs)
		P = n
		sc := vxCol{typ: "string", s: strs, null: make([]bool, n)}
		fc := vxCol{typ: "float", f: fls}
		names, cols = []string{"\uFFFD\u2028", "f"}, []vxCol{sc, fc}
	}
	ix := make([]uint32, n)
	for k := range ix {
		ix[k] = uint32(n - k)
	}
	if shape == "big" {
		ix = vxIota(n)
		k := vxConc(vx.IntN(0, 1), 2) // and the solver picks one of two arrangements
		ix[0], ix[k*(n-1)] = ix[k*(n-1)], ix[0]
	}
	if shape == "digits" || shape == "pow2" || shape == "ints" {
		ix = vxIota(n)
		k := vxConc(vx.IntN(0, n-1), n)
		ix[0], ix[k] = ix[k], ix[0]
	}
	if shape == "concrete" {
		ix = vxIota(n)
		k := vxConc(vx.IntN(0, n-1), n) // the solver enumerates which row comes first
		ix[0], ix[k] = ix[k], ix[0]
	}
	f := vxFrame(names, cols, ix)
	w := &vxBuf{}
	err := f.ToJSON(w)
	vx.Check(err == nil, "ToJSON: no error")
	r := &c14rd{b: w.b, ok: true}
	r.expect('[')
	for row := 0; row < n && r.ok; row++ {
		if row > 0 {
			r.expect(',')
		}
		r.expect('{')
		for k, name := range names {
			if k > 0 {
				r.expect(',')
			}
			key := r.str()
			vx.Check(r.ok, "valid JSON: key is a well-formed string")
			vx.Check(key == c14valid(name), "key denotes the column name")
			r.expect(':')
			p := int(ix[row])
			c := cols[k]
			switch c.typ {
			case "string", "enum":
				if c.null[p] {
					vx.Check(r.token() == "null", "null string is written as null")
				} else {
					v := r.str()
					vx.Check(r.ok, "valid JSON: value is a well-formed string")
					vx.Check(v == c14valid(c.s[p]), "string value denotes the cell")
				}
			case "int":
				vx.Check(r.token() == strconv.FormatInt(int64(c.i[p]), 10), "int value")
			case "bool":
				want := "false"
				if c.b[p] {
					want = "true"
				}
				vx.Check(r.token() == want, "bool value")
			case "float":
				if vxBoolConc(c.f[p] != c.f[p]) {
					vx.Check(r.token() == "null", "NaN is written as null")
				} else {
					vx.Check(r.token() == strconv.FormatFloat(c.f[p], 'f', -1, 64), "float value")
				}
			}
		}
		r.expect('}')
	}
	r.expect(']')
	vx.Check(r.ok && r.pos == len(r.b), "valid JSON: array of one object per row")
	vx.Reach("end")
}

// c14decode is the reference decoder that stands in for encoding/json's
// Decoder.Decode(&[]map[string]interface{}) in the engine: objects become maps (a repeated
// key keeps its last value), numbers float64, strings their denoted text, null nil.
func c14decode(rd io.Reader) (interface{}, error) {
	var b []byte
	buf := make([]byte, 512)
	for {
		n, err := rd.Read(buf)
		b = append(b, buf[:n]...)
		if err != nil {
			if err != io.EOF {
				return nil, err
			}
			break
		}
	}
	r := &c14rd{b: b, ok: true}
	recs := qfio.JSONRecords{}
	r.expect('[')
	first := true
	for r.ok && !r.peek(']') {
		if !first {
			r.expect(',')
		}
		first = false
		r.expect('{')
		m := map[string]interface{}{}
		firstKey := true
		for r.ok && !r.peek('}') {
			if !firstKey {
				r.expect(',')
			}
			firstKey = false
			key := r.str()
			r.expect(':')
			if r.peek('"') {
				m[key] = r.str()
				continue
			}
			switch tok := r.token(); tok {
			case "null":
				m[key] = nil
			case "true":
				m[key] = true
			case "false":
				m[key] = false
			default:
				v, err := strconv.ParseFloat(tok, 64)
				if err != nil {
					return nil, errors.New("invalid number in JSON text")
				}
				m[key] = v
			}
		}
		r.expect('}')
		recs = append(recs, m)
	}
	r.expect(']')
	if !r.ok || r.pos != len(b) {
		return nil, errors.New("invalid JSON text")
	}
	return recs, nil
}

// VX_C14_readjson: ReadJSON applied to what ToJSON wrote reproduces the frame
// (bool, string, enum, NaN-free float columns; int columns as equal-valued floats).
func VX_C14_readjson() {
	vx.ModelJSONStream(c14newStream)
	n := vx.ParamInt("n")
	P := n + 1
	var names []string
	var cols []vxCol
	for _, t := range splitComma(vx.ParamStr("types")) {
		var c vxCol
		switch t {
		case "string":
			c = vxCol{typ: "string", s: make([]string, P), null: make([]bool, P)}
			for p := range c.s {
				c.s[p], c.null[p] = vxStrCell(vx.ParamInt("strlen"), true)
				c14assume(c.s[p], c14cellAlpha)
			}
		case "enum":
			c = vxMakeColLite("enum", P)
		default:
			c = vxMakeCol(t, P, 0)
		}
		if t == "float" {
			for _, v := range c.f {
				vx.Assume(vx.And(v == v, !math.IsInf(v, 0))) // finite, NaN-free
			}
		}
		names = append(names, string(rune('a'+len(names)))+t[:1])
		cols = append(cols, c)
	}
	ix := make([]uint32, n)
	for k := range ix {
		ix[k] = uint32(n - k)
	}
	f := vxFrame(names, cols, ix)
	w := &vxBuf{}
	vx.Check(f.ToJSON(w) == nil, "ToJSON: no error")
	enums := map[string][]string{}
	ecols := make([]vxCol, len(cols))
	for k, c := range cols {
		switch c.typ {
		case "enum":
			enums[names[k]] = vxEnumVals
		case "int": // JSON has one number type: ints return as equal-valued floats
			fc := vxCol{typ: "float", f: make([]float64, P)}
			for p := range fc.f {
				fc.f[p] = float64(c.i[p])
			}
			c = fc
		case "string": // the text the cell denotes (malformed UTF-8 cannot be written in JSON)
			sc := vxCol{typ: "string", s: make([]string, P), null: c.null}
			for p := range sc.s {
				sc.s[p] = c14valid(c.s[p])
			}
			c = sc
		}
		ecols[k] = c
	}
	g := ReadJSON(bytes.NewReader(w.b), newqf.ColumnOrder(names...), newqf.Enums(enums))
	vxCheckFrameVal(g, names, ecols, ix, "ReadJSON of ToJSON")
	vx.Reach("end")
}

func splitComma(s string) []string {
	var out []string
	cur := ""
	for k := 0; k < len(s); k++ {
		if s[k] == ',' {
			out = append(out, cur)
			cur = ""
			continue
		}
		cur += string(s[k])
	}
	return append(out, cur)
}

// c14stream is the reference stand-in for *encoding/json.Decoder (vx.ModelJSONStream): the entry
// points Token, More and Decode over a buffered reader, as the package documents them. Like the
// real decoder it reads on demand, More reports false on any read error (and drops it), Token
// and Decode report the reader's error (io.ErrUnexpectedEOF when the text just ends too early).
type c14stream struct {
	r   io.Reader
	b   []byte
	pos int
	err error
}

func c14newStream(r io.Reader) vx.JSONStream { return &c14stream{r: r} }

func (d *c14stream) fill() {
	if d.err != nil {
		return
	}
	buf := make([]byte, 512)
	n, err := d.r.Read(buf)
	d.b = append(d.b, buf[:n]...)
	d.err = err
}

// peek skips white space and returns the next byte, reading as needed.
func (d *c14stream) peek() (byte, error) {
	for {
		for d.pos < len(d.b) {
			c := d.b[d.pos]
			if c != ' ' && c != '\t' && c != '\r' && c != '\n' {
				return c, nil
			}
			d.pos++
		}
		if d.err != nil {
			return 0, d.err
		}
		d.fill()
	}
}

func (d *c14stream) More() bool {
	c, err := d.peek()
	return err == nil && c != ']' && c != '}'
}

func (d *c14stream) Token() (interface{}, error) {
	for {
		c, err := d.peek()
		if err != nil {
			return nil, err
		}
		switch c {
		case '[', ']', '{', '}':
			d.pos++
			return json.Delim(c), nil
		case ',', ':':
			d.pos++ // separators are consumed silently
			continue
		}
		return nil, errors.New("c14stream: only delimiter tokens are modelled")
	}
}

// record parses one {...} object starting at r.pos.
func c14record(r *c14rd) (map[string]interface{}, error) {
	r.expect('{')
	m := map[string]interface{}{}
	firstKey := true
	for r.ok && !r.peek('}') {
		if !firstKey {
			r.expect(',')
		}
		firstKey = false
		key := r.str()
		r.expect(':')
		if r.peek('"') {
			m[key] = r.str()
			continue
		}
		tok := r.token()
		if r.short {
			break
		}
		switch tok {
		case "null":
			m[key] = nil
		case "true":
			m[key] = true
		case "false":
			m[key] = false
		default:
			v, err := strconv.ParseFloat(tok, 64)
			if err != nil {
				return nil, errors.New("invalid number in JSON text")
			}
			m[key] = v
		}
	}
	r.expect('}')
	return m, nil
}

// Decode reads the next value: an array of records or one record, into *JSONRecords or *map.
func (d *c14stream) Decode(v interface{}) error {
	for {
		c, err := d.peek()
		if err != nil {
			return err
		}
		if c == ',' { // between array elements, after Token has opened the array
			d.pos++
			continue
		}
		break
	}
	for {
		r := &c14rd{b: d.b, pos: d.pos, ok: true}
		var rec map[string]interface{}
		recs := qfio.JSONRecords{}
		var perr error
		if r.peek('[') {
			r.expect('[')
			first := true
			for r.ok && !r.peek(']') {
				if !first {
					r.expect(',')
				}
				first = false
				var m map[string]interface{}
				m, perr = c14record(r)
				if perr != nil {
					return perr
				}
				recs = append(recs, m)
			}
			r.expect(']')
		} else {
			rec, perr = c14record(r)
			if perr != nil {
				return perr
			}
		}
		if r.ok {
			d.pos = r.pos
			switch dst := v.(type) {
			case *qfio.JSONRecords:
				if rec != nil {
					return errors.New("json: cannot unmarshal object into a slice")
				}
				*dst = recs
			case *map[string]interface{}:
				if rec == nil {
					return errors.New("json: cannot unmarshal array into a map")
				}
				*dst = rec
			default:
				return errors.New("c14stream: destination type not modelled")
			}
			return nil
		}
		if !r.short {
			return errors.New("invalid JSON text")
		}
		// the value is not complete yet: read more
		if d.err != nil {
			if d.err == io.EOF {
				return io.ErrUnexpectedEOF
			}
			return d.err
		}
		d.fill()
	}
}

// VX_C14_aggregated: ToJSON of frames that come out of GroupBy/Aggregate (renamed columns), Select and Copy:
// the keys are the frame's column names as they are now.
func VX_C14_aggregated() {
	P := 4
	g := vxCol{typ: "string", s: []string{"a", "b", "a", "b"}, null: make([]bool, P)}
	x := vxMakeCol("int", P, 0)
	f := vxFrame([]string{"G", "X"}, []vxCol{g, x}, nil)
	r := f.GroupBy(groupby.Columns("G")).Aggregate(Aggregation{Fn: "sum", Column: "X", As: "TOTAL"}, Aggregation{Fn: "max", Column: "X", As: "LARGEST"})
	vx.Check(r.Err == nil, "Aggregate: no error")
	for _, h := range []QFrame{r, r.Sort(Order{Column: "G"}), r.Select("LARGEST", "G"), r.Copy("Z", "TOTAL")} {
		w := &vxBuf{}
		vx.Check(h.ToJSON(w) == nil, "ToJSON: no error")
		rd := &c14rd{b: w.b, ok: true}
		rd.expect('[')
		names := h.ColumnNames()
		for row := 0; row < h.Len() && rd.ok; row++ {
			if row > 0 {
				rd.expect(',')
			}
			rd.expect('{')
			for k, name := range names {
				if k > 0 {
					rd.expect(',')
				}
				key := rd.str()
				vx.Check(key == name, "key is the column's current name")
				rd.expect(':')
				if rd.peek('"') {
					rd.str()
				} else {
					rd.token()
				}
			}
			rd.expect('}')
		}
		rd.expect(']')
		vx.Check(rd.ok && rd.pos == len(rd.b), "valid JSON")
	}
	vx.Reach("end")
}
