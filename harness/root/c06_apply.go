package qframe

// C06: Apply / FilteredApply / WithRowNums compute each destination cell from
// the same row and change nothing else. User functions are uninterpreted.

import (
	"strings"

	"github.com/tobgu/qframe/internal/vx"
	"github.com/tobgu/qframe/types"
)

// c06cell is one expected cell.
type c06cell struct {
	zn   bool // "zero/null value" of a string destination: null or the empty string
	typ  string
	i    int
	f    float64
	b    bool
	s    string
	null bool
}

func c06get(c vxCol, p int) c06cell {
	switch c.typ {
	case "int":
		return c06cell{typ: "int", i: c.i[p]}
	case "float":
		return c06cell{typ: "float", f: c.f[p]}
	case "bool":
		return c06cell{typ: "bool", b: c.b[p]}
	}
	return c06cell{typ: c.typ, s: c.s[p], null: c.null[p]}
}

func (c c06cell) ptr() *string {
	if c.null {
		return nil
	}
	s := c.s
	return &s
}

// uninterpreted user functions, one family per (source type, result type)
func c06ufS(tag string, args ...interface{}) *string {
	if vx.UFBool(tag+"_null", args...) {
		return nil
	}
	// result type "pstr": the user function may hand back its argument instead of a new string
	if p, ok := args[0].(*string); ok && p != nil && strings.HasSuffix(tag, "_pstr") && vx.UFBool(tag+"_same", args...) {
		return p
	}
	s := string([]byte{vx.UFByte(tag+"_byte", args...)})
	return &s
}

func c06res(res string, tag string, args ...interface{}) c06cell {
	switch res {
	case "int":
		return c06cell{typ: "int", i: vx.UFInt(tag, args...)}
	case "float":
		return c06cell{typ: "float", f: vx.UFFloat(tag, args...)}
	case "bool":
		return c06cell{typ: "bool", b: vx.UFBool(tag, args...)}
	}
	p := c06ufS(tag, args...)
	if p == nil {
		return c06cell{typ: "string", null: true}
	}
	return c06cell{typ: "string", s: *p}
}

// c06fn1 builds func(T) U for source type T and result U.
func c06fn1(src, res string) interface{} {
	tag := "f1_" + src + "_" + res
	switch src {
	case "int":
		switch res {
		case "int":
			return func(x int) int { return vx.UFInt(tag, x) }
		case "float":
			return func(x int) float64 { return vx.UFFloat(tag, x) }
		case "bool":
			return func(x int) bool { return vx.UFBool(tag, x) }
		default:
			return func(x int) *string { return c06ufS(tag, x) }
		}
	case "float":
		switch res {
		case "int":
			return func(x float64) int { return vx.UFInt(tag, x) }
		case "float":
			return func(x float64) float64 { return vx.UFFloat(tag, x) }
		case "bool":
			return func(x float64) bool { return vx.UFBool(tag, x) }
		default:
			return func(x float64) *string { return c06ufS(tag, x) }
		}
	case "bool":
		switch res {
		case "int":
			return func(x bool) int { return vx.UFInt(tag, x) }
		case "float":
			return func(x bool) float64 { return vx.UFFloat(tag, x) }
		case "bool":
			return func(x bool) bool { return vx.UFBool(tag, x) }
		default:
			return func(x bool) *string { return c06ufS(tag, x) }
		}
	}
	switch res {
	case "int":
		return func(x *string) int { return vx.UFInt(tag, x) }
	case "float":
		return func(x *string) float64 { return vx.UFFloat(tag, x) }
	case "bool":
		return func(x *string) bool { return vx.UFBool(tag, x) }
	default:
		return func(x *string) *string { return c06ufS(tag, x) }
	}
}

func c06fn2(src string) interface{} {
	tag := "f2_" + src
	switch src {
	case "int":
		return func(x, y int) int { return vx.UFInt(tag, x, y) }
	case "float":
		return func(x, y float64) float64 { return vx.UFFloat(tag, x, y) }
	case "bool":
		return func(x, y bool) bool { return vx.UFBool(tag, x, y) }
	}
	return func(x, y *string) *string { return c06ufS(tag, x, y) }
}

func c06arg(c c06cell) interface{} {
	switch c.typ {
	case "int":
		return c.i
	case "float":
		return c.f
	case "bool":
		return c.b
	}
	return c.ptr()
}

// c06step is one instruction together with its reference semantics.
type c06step struct {
	kind, dst, src1, src2, res string
	ci                         int
	cf                         float64
	cb                         bool
	cs                         string
}

func (st c06step) instruction() Instruction {
	in := Instruction{DstCol: st.dst, SrcCol1: st.src1, SrcCol2: st.src2}
	switch st.kind {
	case "const_int":
		in.Fn = st.ci
	case "const_float":
		in.Fn = st.cf
	case "const_bool":
		in.Fn = st.cb
	case "const_string":
		in.Fn = st.cs
	case "const_nil":
		in.Fn = (*string)(nil)
	case "copy":
		in.Fn = types.ColumnName(st.src1)
		in.SrcCol1 = ""
	case "fn0_counter":
		k := 0
		in.Fn = func() int { k++; return k }
	case "fn0_uf":
		in.Fn = func() float64 { return vx.UFFloat("f0") }
	case "fn1":
		in.Fn = c06fn1(st.res[:strings.Index(st.res, ">")], st.res[strings.Index(st.res, ">")+1:])
	case "fn2":
		in.Fn = c06fn2(st.res)
	case "upper":
		in.Fn = "ToUpper"
	}
	return in
}

// expect computes the destination cell for logical row r (physical p).
func (st c06step) expect(cur map[string]vxCol, r, p int) c06cell {
	switch st.kind {
	case "const_int":
		return c06cell{typ: "int", i: st.ci}
	case "const_float":
		return c06cell{typ: "float", f: st.cf}
	case "const_bool":
		return c06cell{typ: "bool", b: st.cb}
	case "const_string":
		return c06cell{typ: "string", s: st.cs}
	case "const_nil":
		return c06cell{typ: "string", null: true}
	case "copy":
		return c06get(cur[st.src1], p)
	case "fn0_counter":
		return c06cell{typ: "int", i: r + 1}
	case "fn0_uf":
		return c06cell{typ: "float", f: vx.UFFloat("f0")}
	case "fn1":
		src, res := st.res[:strings.Index(st.res, ">")], st.res[strings.Index(st.res, ">")+1:]
		return c06res(res, "f1_"+src+"_"+res, c06arg(c06get(cur[st.src1], p)))
	case "fn2":
		out := c06res(st.res, "f2_"+st.res, c06arg(c06get(cur[st.src1], p)), c06arg(c06get(cur[st.src2], p)))
		if st.res == "enum" {
			out.typ = "string"
		}
		return out
	case "upper":
		c := c06get(cur[st.src1], p)
		if !c.null {
			c.s = strings.ToUpper(c.s)
		}
		return c
	}
	panic("c06 expect " + st.kind)
}

func c06zero(typ string) c06cell {
	switch typ {
	case "int", "float", "bool":
		return c06cell{typ: typ}
	}
	// the property says "zero/null value": for strings both the empty string and null qualify
	return c06cell{typ: typ, null: true, zn: typ == "string"}
}

// c06colFromCells builds a harness column of P cells.
func c06colFromCells(typ string, cells []c06cell) vxCol {
	c := vxCol{typ: typ}
	for _, x := range cells {
		switch typ {
		case "int":
			c.i = append(c.i, x.i)
		case "float":
			c.f = append(c.f, x.f)
		case "bool":
			c.b = append(c.b, x.b)
		default:
			c.s = append(c.s, x.s)
			c.null = append(c.null, x.null)
			c.zn = append(c.zn, x.zn)
		}
	}
	return c
}

func c06parse(spec string) c06step {
	// kind:dst:src1:src2:res
	f := strings.Split(spec, ":")
	for len(f) < 5 {
		f = append(f, "")
	}
	st := c06step{kind: f[0], dst: f[1], src1: f[2], src2: f[3], res: f[4]}
	switch st.kind {
	case "const_int":
		st.ci = vx.Int()
	case "const_float":
		st.cf = vx.Float64()
	case "const_bool":
		st.cb = vx.Bool()
	case "const_string":
		st.cs = vx.Str(1)
	}
	return st
}

func VX_C06_apply() {
	n, P := vx.ParamInt("n"), vx.ParamInt("P")
	steps := strings.Split(vx.ParamStr("steps"), ";")
	mode := vx.ParamStr("mode") // apply | filtered | rownums
	names := []string{"a", "b", "f", "c", "s", "e"}
	if vx.HasParam("dup") {
		// an enum whose declared values differ only in case (they become equal under ToUpper)
		vxEnumVals = []string{"b", "B", "c"}
	}
	cols := []vxCol{vxMakeColLite("int", P), vxMakeColLite("int", P), vxMakeColLite("float", P), vxMakeColLite("bool", P), vxMakeColLite("string", P), vxMakeColLite("enum", P)}
	if strings.Contains(vx.ParamStr("steps"), "upper") {
		for _, c := range []vxCol{cols[4], cols[5]} {
			for k := range c.s {
				if c.typ == "string" {
					vx.Assume(vx.Or(c.s[k] == "a", vx.Or(c.s[k] == "B", c.s[k] == "z")))
				}
			}
		}
	}
	ix := vxConcIndex(n, P)
	f := vxFrame(names, cols, ix)
	if vx.HasParam("pre") {
		// the frame is a projection of a wider frame: column positions have moved
		var keep []string
		switch vx.ParamStr("pre") {
		case "drop_first":
			f = f.Drop("a")
			keep = names[1:]
		case "select_rev":
			keep = []string{"e", "s", "c", "f", "b", "a"}
			f = f.Select(keep...)
		case "drop_mid":
			f = f.Drop("f")
			keep = []string{"a", "b", "c", "s", "e"}
		}
		var kc []vxCol
		for _, nm := range keep {
			for j := range names {
				if names[j] == nm {
					kc = append(kc, cols[j])
				}
			}
		}
		names, cols = keep, kc
	}
	cur := map[string]vxCol{}
	for k, nm := range names {
		cur[nm] = cols[k]
	}
	order := append([]string{}, names...)

	var parsed []c06step
	var ins []Instruction
	for _, sp := range steps {
		if sp == "" {
			continue
		}
		st := c06parse(sp)
		parsed = append(parsed, st)
		ins = append(ins, st.instruction())
	}
	var r QFrame
	threshold := vx.Int()
	selected := make([]bool, n)
	for row := range selected {
		selected[row] = true
	}
	switch mode {
	case "apply":
		r = f.Apply(ins...)
	case "filtered":
		for _, st := range parsed {
			if st.kind == "copy" {
				// known finding: the copied column is shared, rows outside the filter keep the source value
				vx.Tag("kf:filteredapply-copy")
			}
		}
		r = f.FilteredApply(Filter{Column: "b", Comparator: ">", Arg: threshold}, ins...)
		for row := range selected {
			selected[row] = vxBoolConc(cols[1].i[ix[row]] > threshold)
		}
	case "rownums":
		r = f.WithRowNums("num")
		parsed = []c06step{{kind: "fn0_counter", dst: "num"}}
	}
	vx.Check(r.Err == nil, "no error")
	// reference interpretation of the instruction list
	callNo := 0
	for _, st := range parsed {
		cells := make([]c06cell, P)
		typ := ""
		for row := 0; row < n; row++ {
			p := int(ix[row])
			if !selected[row] {
				continue
			}
			var c c06cell
			if st.kind == "fn0_counter" {
				c = c06cell{typ: "int", i: callNo + 1}
				if mode == "rownums" {
					c.i = callNo
				}
				callNo++
			} else {
				c = st.expect(cur, row, p)
			}
			cells[p] = c
			typ = c.typ
		}
		if typ == "" { // no row selected: type by a dry evaluation
			typ = st.expect(cur, 0, int(ix[0])).typ
		}
		for row := 0; row < n; row++ {
			if !selected[row] {
				cells[ix[row]] = c06zero(typ)
			}
		}
		callNo = 0
		if _, ok := cur[st.dst]; !ok {
			order = append(order, st.dst)
		}
		cur[st.dst] = c06colFromCells(typ, cells)
	}
	ocols := make([]vxCol, len(order))
	for k, nm := range order {
		ocols[k] = cur[nm]
	}
	vxCheckFrame(r, order, ocols, ix, "after "+mode)
	vxCheckFrame(f, names, cols, ix, "source frame")
	if mode == "apply" && len(order) > len(names) {
		// frames derived from the same parent by adding different columns are independent:
		// r has grown by new columns (its column storage may have spare capacity)
		s1 := r.Copy("sib1", order[0])
		s2 := r.Apply(Instruction{Fn: 7, DstCol: "sib2"})
		vxCheckFrame(s1, append(append([]string{}, order...), "sib1"), append(append([]vxCol{}, ocols...), ocols[0]), ix, "first sibling after the second was derived")
		vx.Check(s2.Err == nil && len(s2.ColumnNames()) == len(order)+1 && s2.ColumnNames()[len(order)] == "sib2", "second sibling has its own new column")
		vxCheckFrame(r, order, ocols, ix, "parent of the siblings")
	}
	vx.Reach("end")
}

// VX_C06_passthru: a user function func(*string) *string (or with two arguments) may return one
// of its arguments; which rows get the argument back is decided by an uninterpreted predicate.
// Cells are concrete and pairwise different, so a cell showing another row's value is visible.
func VX_C06_passthru() {
	P := 4
	sc := vxCol{typ: "string", s: []string{"p", "q", "", "r"}, null: []bool{false, false, true, false}}
	ec := vxCol{typ: "enum", s: []string{"b", "c", "", "a"}, null: []bool{false, false, true, false}}
	tc := vxCol{typ: "string", s: []string{"w", "x", "y", "z"}, null: make([]bool, P)}
	bc := vxMakeCol("int", P, 0)
	ix := []uint32{3, 1, 0, 2}
	f := vxFrame([]string{"s", "e", "t", "b"}, []vxCol{sc, ec, tc, bc}, ix)
	src := vx.ParamStr("src")
	srcCol := sc
	if src == "e" {
		srcCol = ec
	}
	two := vx.ParamStr("args") == "2"
	// reference: the destination cell per physical row
	want := vxCol{typ: "string", s: make([]string, P), null: make([]bool, P), zn: make([]bool, P)}
	threshold := vx.Int()
	selected := func(p int) bool { return vx.ParamStr("mode") != "filtered" || bc.i[p] > threshold }
	pick := func(x, y *string) *string {
		switch {
		case vx.UFBool("pt_first", x, y):
			return x
		case two && vx.UFBool("pt_second", x, y):
			return y
		}
		return nil
	}
	for _, p := range ix {
		if !vxBoolConc(selected(int(p))) {
			want.null[p], want.zn[p] = true, true
			continue
		}
		x := c06get(srcCol, int(p)).ptr()
		y := c06get(tc, int(p)).ptr()
		if !two {
			y = nil
		}
		r := pick(x, y)
		if r == nil {
			want.null[p] = true
		} else {
			want.s[p] = *r
		}
	}
	in := Instruction{Fn: func(x *string) *string { return pick(x, nil) }, DstCol: "z", SrcCol1: src}
	if two {
		in = Instruction{Fn: func(x, y *string) *string { return pick(x, y) }, DstCol: "z", SrcCol1: src, SrcCol2: "t"}
		if src == "e" {
			in.SrcCol2 = "e" // two-argument functions need both sources of one type
		}
	}
	if two && src == "e" {
		for _, p := range ix {
			if vxBoolConc(selected(int(p))) {
				x := c06get(ec, int(p)).ptr()
				r := pick(x, x)
				want.null[p] = r == nil
				if r != nil {
					want.s[p] = *r
				}
			}
		}
	}
	var r QFrame
	if vx.ParamStr("mode") == "filtered" {
		// an earlier, unrelated string Apply in the same process (state carried between calls)
		warm := f.Apply(Instruction{Fn: func(x *string) *string { s := "stale"; return &s }, DstCol: "w", SrcCol1: "t"})
		vx.Check(warm.Err == nil, "warm-up Apply")
		r = f.FilteredApply(Filter{Column: "b", Comparator: ">", Arg: threshold}, in)
	} else {
		r = f.Apply(in)
	}
	vxCheckFrame(r, []string{"s", "e", "t", "b", "z"}, []vxCol{sc, ec, tc, bc, want}, ix, "pass-through function")
	vx.Reach("end")
}
