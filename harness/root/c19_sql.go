package qframe

// C19 (and the SQL part of C15): ToSQL writes each row as one INSERT, ReadSQL
// rebuilds the result set. database/sql is replaced by a contract model in the
// engine and by a scripted in-memory driver natively (package vxsql).

import (
	"math"
	"strconv"
	"strings"

	"github.com/tobgu/qframe/config/newqf"
	qsql "github.com/tobgu/qframe/config/sql"
	"github.com/tobgu/qframe/internal/vx"
	"github.com/tobgu/qframe/internal/vxsql"
)

func c19dialect(d string) ([]qsql.ConfigFunc, string, bool) {
	switch d {
	case "postgres":
		return []qsql.ConfigFunc{qsql.Postgres()}, "\"", true
	case "sqlite":
		return []qsql.ConfigFunc{qsql.SQLite()}, "\"", false
	case "mysql":
		return []qsql.ConfigFunc{qsql.MySQL()}, "`", false
	case "esc2": // a user-chosen escape character outside ASCII (two bytes of UTF-8)
		return []qsql.ConfigFunc{qsql.EscapeChar('´')}, "´", false
	case "esc3": // three bytes of UTF-8, together with incrementing placeholders
		return []qsql.ConfigFunc{qsql.EscapeChar('”'), qsql.Incrementing()}, "”", true
	case "incr_mysql": // options are independent: a dialect preset chosen after Incrementing keeps the $n markers
		return []qsql.ConfigFunc{qsql.Incrementing(), qsql.MySQL()}, "`", true
	case "incr_sqlite":
		return []qsql.ConfigFunc{qsql.Incrementing(), qsql.SQLite()}, "\"", true
	case "incr_esc":
		return []qsql.ConfigFunc{qsql.Incrementing(), qsql.EscapeChar('"')}, "\"", true
	case "plain":
		return nil, "", false
	case "incr":
		return []qsql.ConfigFunc{qsql.Incrementing()}, "", true
	}
	panic("dialect")
}

func c19insert(table string, names []string, esc string, incr bool) string {
	q := "INSERT INTO " + esc + table + esc + " ("
	for k, n := range names {
		if k > 0 {
			q += ","
		}
		q += esc + n + esc
	}
	q += ") VALUES ("
	for k := range names {
		if k > 0 {
			q += ","
		}
		if incr {
			q += "$" + strconv.Itoa(k+1)
		} else {
			q += "?"
		}
	}
	return q + ");"
}

func c19frame(typs []string, n int) ([]string, []vxCol, []uint32, QFrame) {
	P := n + 1
	all := []string{"a", "b", "c", "d", "e"}
	names := all[:len(typs)]
	cols := make([]vxCol, len(typs))
	for k, t := range typs {
		cols[k] = vxMakeColLite(t, P)
	}
	ix := make([]uint32, n)
	for k := range ix {
		ix[k] = uint32(n - k)
	}
	return names, cols, ix, vxFrame(names, cols, ix)
}

// c19argSame: the driver-level argument a equals physical cell p of column c.
func c19argSame(a interface{}, c vxCol, p int) bool {
	switch c.typ {
	case "int":
		v, ok := a.(int64)
		return ok && v == int64(c.i[p])
	case "float":
		v, ok := a.(float64)
		return ok && math.Float64bits(v) == math.Float64bits(c.f[p])
	case "bool":
		v, ok := a.(bool)
		return ok && v == c.b[p]
	}
	if c.null[p] {
		return a == nil
	}
	v, ok := a.(string)
	return ok && v == c.s[p]
}

func VX_C19_tosql() {
	vxsql.Reset()
	typs := strings.Split(vx.ParamStr("types"), ",")
	n := vx.ParamInt("n")
	names, cols, ix, f := c19frame(typs, n)
	opts, esc, incr := c19dialect(vx.ParamStr("dialect"))
	table := vx.ParamStr("table")
	opts = append(opts, qsql.Table(table))
	tx := vxsql.Tx()
	err := f.ToSQL(tx, opts...)
	vx.Check(err == nil, "ToSQL: no error")
	log := vxsql.ExecLog()
	vx.Check(len(log) == n, "one INSERT per row")
	want := c19insert(table, names, esc, incr)
	for r := 0; r < n && r < len(log); r++ {
		e := log[r]
		q, _ := e[0].(string)
		vx.Check(q == want, "statement text")
		vx.Check(len(e) == 1+len(names), "one argument per column")
		if len(e) != 1+len(names) {
			continue
		}
		for k := range names {
			vx.Check(c19argSame(e[1+k], cols[k], int(ix[r])), "argument is the row's cell (rows in frame order)")
		}
	}
	vx.Reach("end")
}

// c19value makes the driver value for physical cell p of column c (NULL for null).
func c19value(c vxCol, p int, asBytes bool) interface{} {
	switch c.typ {
	case "int":
		return int64(c.i[p])
	case "float":
		if vxBoolConc(c.f[p] != c.f[p]) {
			return nil
		}
		return c.f[p]
	case "bool":
		return c.b[p]
	}
	if c.null[p] {
		return nil
	}
	if asBytes {
		return []byte(c.s[p])
	}
	return c.s[p]
}

func VX_C19_readsql() {
	vxsql.Reset()
	typs := strings.Split(vx.ParamStr("types"), ",")
	n := vx.ParamInt("n")
	names, cols, ix, _ := c19frame(typs, n)
	for _, c := range cols {
		// a column that is entirely NULL carries no type information: outside the claim
		if c.typ == "string" {
			some := false
			for _, p := range ix {
				some = some || !c.null[p]
			}
			vx.Assume(some)
		}
		if c.typ == "float" {
			some := false
			for _, p := range ix {
				some = vx.Or(some, c.f[p] == c.f[p])
			}
			vx.Assume(some)
		}
	}
	rows := make([][]interface{}, n)
	for r := range rows {
		for k := range names {
			rows[r] = append(rows[r], c19value(cols[k], int(ix[r]), vx.ParamBool("bytes")))
		}
	}
	vxsql.SetResult(names, rows)
	g := ReadSQL(vxsql.Tx(), qsql.Query("select"))
	// NaN cells were sent as NULL: they must come back as NaN
	vxCheckFrameVal(g, names, cols, ix, "ReadSQL")
	vx.Reach("end")
}

// VX_C19_roundtrip: what ToSQL wrote is fed back through ReadSQL.
func VX_C19_roundtrip() {
	vxsql.Reset()
	typs := strings.Split(vx.ParamStr("types"), ",")
	n := vx.ParamInt("n")
	names, cols, ix, f := c19frame(typs, n)
	for _, c := range cols {
		if c.typ == "string" || c.typ == "enum" {
			some := false
			for _, p := range ix {
				some = some || !c.null[p]
			}
			vx.Assume(some)
		}
		if c.typ == "float" {
			some := false
			for _, p := range ix {
				some = vx.Or(some, c.f[p] == c.f[p])
			}
			vx.Assume(some)
		}
	}
	err := f.ToSQL(vxsql.Tx(), qsql.Table("t"))
	vx.Check(err == nil, "ToSQL: no error")
	log := vxsql.ExecLog()
	rows := make([][]interface{}, len(log))
	for r, e := range log {
		rows[r] = e[1:]
	}
	vxsql.SetResult(names, rows)
	g := ReadSQL(vxsql.Tx(), qsql.Query("select"))
	ecols := make([]vxCol, len(cols))
	for k, c := range cols {
		if c.typ == "enum" {
			c.typ = "string" // enum columns return as strings
		}
		ecols[k] = c
	}
	vxCheckFrameVal(g, names, ecols, ix, "round trip")
	vx.Reach("end")
}

// VX_C15_sql: scripted driver failures must be reported.
func VX_C15_sql() {
	vxsql.Reset()
	n := 2
	names, cols, ix, f := c19frame([]string{"int", "string"}, n)
	_ = cols
	what := vx.ParamStr("what")
	at := vx.ParamInt("at")
	vxsql.Fail(what, at)
	switch what {
	case "exec":
		err := f.ToSQL(vxsql.Tx(), qsql.Table("t"))
		vx.Check(err != nil, "a failing Exec is reported")
	default:
		rows := [][]interface{}{{int64(1), "x"}, {int64(2), "y"}, {int64(3), "z"}}
		vxsql.SetResult(names, rows)
		g := ReadSQL(vxsql.Tx(), qsql.Query("select"))
		vx.Check(g.Err != nil, "a failing driver is reported through Err (no partial frame)")
		vx.Check(g.Len() == -1, "no rows exposed")
	}
	_ = ix
	vx.Reach("end")
}

// VX_C19_sequence: two ToSQL calls with different dialects in one process.
func VX_C19_sequence() {
	vxsql.Reset()
	names, cols, ix, f := c19frame([]string{"int", "string"}, 1)
	_, _ = cols, ix
	order := []string{vx.ParamStr("d1"), vx.ParamStr("d2"), vx.ParamStr("d1")}
	for k, d := range order {
		opts, esc, incr := c19dialect(d)
		opts = append(opts, qsql.Table("t"))
		err := f.ToSQL(vxsql.Tx(), opts...)
		vx.Check(err == nil, "ToSQL: no error")
		log := vxsql.ExecLog()
		vx.Check(len(log) == k+1, "one INSERT per row and call")
		if len(log) == k+1 {
			q, _ := log[k][0].(string)
			vx.Check(q == c19insert("t", names, esc, incr), "statement text follows the dialect of this call")
		}
	}
	vx.Reach("end")
}

// VX_C19_precision: float precision is applied to values, NULLs stay NaN.
func VX_C19_precision() {
	vxsql.Reset()
	lead := vx.Bool()
	// negative and positive exact ties at the second decimal, ordinary values, NULLs
	rows := [][]interface{}{{1.234}, {nil}, {2.5}, {nil}, {-0.125}, {-1.375}, {0.125}, {-2.5}}
	if lead {
		rows = [][]interface{}{{nil}, {1.234}, {nil}, {2.5}, {-1.375}, {0.125}, {-0.125}, {-2.5}}
	}
	vxsql.SetResult([]string{"f"}, rows)
	opts := []qsql.ConfigFunc{qsql.Query("select"), qsql.Precision(2)}
	if vx.HasParam("coerce") {
		// the driver delivers the numbers as text, the caller asks for floats
		for _, row := range rows {
			if row[0] != nil {
				row[0] = strconv.FormatFloat(row[0].(float64), 'f', -1, 64)
			}
		}
		opts = append(opts, qsql.Coerce(qsql.CoercePair{Column: "f", Type: qsql.StringToFloat}))
	}
	vxsql.SetResult([]string{"f"}, rows)
	g := ReadSQL(vxsql.Tx(), opts...)
	vx.Check(g.Err == nil && g.Len() == len(rows), "ReadSQL with Precision: no error")
	if g.Err != nil || g.Len() != len(rows) {
		return
	}
	v := g.MustFloatView("f")
	for r, row := range rows {
		x := v.ItemAt(r)
		if row[0] == nil {
			vx.Check(x != x, "NULL stays NaN when a precision is configured")
		} else {
			want, isF := row[0].(float64)
			if !isF {
				want, _ = strconv.ParseFloat(row[0].(string), 64)
			}
			vx.Check(x == math.Round(want*100)/100, "value rounded to the configured precision")
		}
	}
	vx.Reach("end")
}

// VX_C19_tosql_big: more rows than any internal batch; nulls in late rows whose predecessors
// (256, 512 rows earlier) are not null. Concrete: a size boundary the symbolic frames cannot reach.
func VX_C19_tosql_big() {
	vxsql.Reset()
	n := vx.ParamInt("n")
	ids := make([]int, n)
	strs := make([]*string, n)
	for k := range ids {
		ids[k] = k
		if k%7 != 3 || k < 200 {
			s := "v" + strconv.Itoa(k)
			strs[k] = &s
		}
	}
	f := New(map[string]interface{}{"id": ids, "s": strs}, newqf.ColumnOrder("id", "s"))
	vx.Check(f.ToSQL(vxsql.Tx(), qsql.Table("t")) == nil, "ToSQL: no error")
	log := vxsql.ExecLog()
	vx.Check(len(log) == n, "one INSERT per row")
	if len(log) != n {
		return
	}
	for r := 0; r < n; r++ {
		e := log[r]
		vx.Check(len(e) == 3, "statement and two arguments")
		id, _ := e[1].(int64)
		vx.Check(id == int64(r), "rows in frame order")
		if strs[r] == nil {
			vx.Check(e[2] == nil, "a null string is sent as NULL")
		} else {
			sv, ok := e[2].(string)
			vx.Check(ok && sv == *strs[r], "string value")
		}
	}
	vx.Reach("end")
}
