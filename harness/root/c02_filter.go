package qframe

// C02: Filter keeps exactly the rows satisfying the clause, in frame order.
//
// One instance = (column type, comparator, argument kind, clause context, n, P).
// Symbolic: every cell, the row index, every constant. The reference predicate
// is the row-wise semantics of the property statement, written here directly.

import (
	"math"

	"github.com/tobgu/qframe/internal/vx"
	"github.com/tobgu/qframe/types"
)

type c02leaf struct {
	typ, cmp, arg string
	ci            int
	ci2           int
	cf            float64
	cb            bool
	cs            string
	cs2           string
}

func c02mkLeaf(typ, cmp, arg string, strLen int) c02leaf {
	l := c02leaf{typ: typ, cmp: cmp, arg: arg}
	switch arg {
	case "const":
		switch typ {
		case "int":
			l.ci = vx.Int()
		case "float":
			l.cf = vx.Float64()
			vx.Assume(!math.IsNaN(l.cf)) // NaN constant is a documented error
		case "bool":
			l.cb = vx.Bool()
		case "string":
			l.cs, _ = vxStrCell(strLen, false)
		case "enum":
			l.cs, _ = vxEnumCell(false)
		}
	case "pat": // like/ilike with the concrete pattern b% (B% for ilike)
		l.cs = "b%"
		if cmp == "ilike" {
			l.cs = "B%"
		}
	case "all": // an argument every non-null cell satisfies: the whole declared value list / the pattern %
		l.cs = "%"
	case "fconst": // float constant against an int column: truncated
		l.cf = vx.Float64()
		vx.Assume(l.cf > -1e15 && l.cf < 1e15)
	case "iconst": // int constant against a float column is not accepted; unused
	case "list":
		switch typ {
		case "int":
			l.ci, l.ci2 = vx.Int(), vx.Int()
		case "string":
			l.cs, _ = vxStrCell(strLen, false)
			l.cs2, _ = vxStrCell(strLen, false)
		case "enum":
			l.cs, _ = vxEnumCell(false)
			l.cs2, _ = vxEnumCell(false)
		}
	}
	return l
}

// filter builds the qframe Filter for the leaf on column "a" (argument column "b").
func (l c02leaf) filter() Filter {
	f := Filter{Column: "a", Comparator: l.cmp}
	switch l.arg {
	case "const":
		switch l.typ {
		case "int":
			f.Arg = l.ci
		case "float":
			f.Arg = l.cf
		case "bool":
			f.Arg = l.cb
		default:
			f.Arg = l.cs
		}
	case "fconst":
		f.Arg = l.cf
	case "pat":
		f.Arg = l.cs
	case "list":
		switch l.typ {
		case "int":
			f.Arg = []int{l.ci, l.ci2}
		default:
			f.Arg = []string{l.cs, l.cs2}
		}
	case "ilist":
		f.Arg = []interface{}{l.cs, l.cs2}
	case "all":
		if l.cmp == "in" {
			f.Arg = append([]string{}, vxEnumVals...)
		} else {
			f.Arg = l.cs
		}
	case "col":
		f.Arg = types.ColumnName("b")
	case "none":
	}
	switch l.cmp {
	case "fn1":
		switch l.typ {
		case "int":
			f.Comparator = func(x int) bool { return vx.UFBool("p1", x) }
		case "float":
			f.Comparator = func(x float64) bool { return vx.UFBool("p1", x) }
		case "bool":
			f.Comparator = func(x bool) bool { return vx.UFBool("p1", x) }
		default:
			f.Comparator = func(x *string) bool { return vx.UFBool("p1", x) }
		}
	case "fn2":
		switch l.typ {
		case "int":
			f.Comparator = func(x, y int) bool { return vx.UFBool("p2", x, y) }
		case "float":
			f.Comparator = func(x, y float64) bool { return vx.UFBool("p2", x, y) }
		case "bool":
			f.Comparator = func(x, y bool) bool { return vx.UFBool("p2", x, y) }
		default:
			f.Comparator = func(x, y *string) bool { return vx.UFBool("p2", x, y) }
		}
	}
	return f
}

func c02cmpInt(cmp string, x, y int) bool {
	switch cmp {
	case "<":
		return x < y
	case "<=":
		return x <= y
	case ">":
		return x > y
	case ">=":
		return x >= y
	case "=":
		return x == y
	case "!=":
		return x != y
	}
	panic("c02cmpInt: " + cmp)
}

func c02cmpFloat(cmp string, x, y float64) bool {
	// Go's float comparisons already give false with NaN except !=.
	switch cmp {
	case "<":
		return x < y
	case "<=":
		return x <= y
	case ">":
		return x > y
	case ">=":
		return x >= y
	case "=":
		return x == y
	case "!=":
		return x != y
	}
	panic("c02cmpFloat: " + cmp)
}

func c02cmpStr(cmp string, x, y string) bool {
	switch cmp {
	case "<":
		return x < y
	case "<=":
		return x <= y
	case ">":
		return x > y
	case ">=":
		return x >= y
	case "=":
		return x == y
	case "!=":
		return x != y
	}
	panic("c02cmpStr: " + cmp)
}

func c02ptr(s string, null bool) *string {
	if null {
		return nil
	}
	return &s
}

// ref is the statement's row-wise meaning of the leaf for physical row p.
func (l c02leaf) ref(a, b vxCol, p int) bool {
	switch l.typ {
	case "int":
		x := a.i[p]
		switch l.cmp {
		case "isnull":
			return false
		case "isnotnull":
			return true
		case "any_bits":
			return x&l.ci != 0
		case "all_bits":
			return x&l.ci == l.ci
		case "in":
			return vx.Or(x == l.ci, x == l.ci2)
		case "fn1":
			return vx.UFBool("p1", x)
		case "fn2":
			return vx.UFBool("p2", x, b.i[p])
		}
		switch l.arg {
		case "const":
			return c02cmpInt(l.cmp, x, l.ci)
		case "fconst":
			return c02cmpInt(l.cmp, x, int(l.cf))
		case "col":
			if b.typ == "float" { // int column promoted to float
				return c02cmpFloat(l.cmp, float64(x), b.f[p])
			}
			return c02cmpInt(l.cmp, x, b.i[p])
		}
	case "float":
		x := a.f[p]
		switch l.cmp {
		case "isnull":
			return math.IsNaN(x)
		case "isnotnull":
			return !math.IsNaN(x)
		case "fn1":
			return vx.UFBool("p1", x)
		case "fn2":
			return vx.UFBool("p2", x, b.f[p])
		}
		switch l.arg {
		case "const":
			return c02cmpFloat(l.cmp, x, l.cf)
		case "col":
			if b.typ == "int" {
				return c02cmpFloat(l.cmp, x, float64(b.i[p]))
			}
			return c02cmpFloat(l.cmp, x, b.f[p])
		}
	case "bool":
		x := a.b[p]
		switch l.cmp {
		case "fn1":
			return vx.UFBool("p1", x)
		case "fn2":
			return vx.UFBool("p2", x, b.b[p])
		}
		y := l.cb
		if l.arg == "col" {
			y = b.b[p]
		}
		if l.cmp == "=" {
			return x == y
		}
		return x != y
	case "string", "enum":
		p = vxConc(p, len(a.s))
		x, xn := a.s[p], a.null[p]
		switch l.cmp {
		case "isnull":
			return xn
		case "isnotnull":
			return !xn
		case "in":
			if xn {
				return false
			}
			if l.arg == "all" {
				return vxEnumRank(x) >= 0
			}
			return vx.Or(x == l.cs, x == l.cs2)
		case "fn1":
			return vx.UFBool("p1", c02ptr(x, xn))
		case "fn2":
			return vx.UFBool("p2", c02ptr(x, xn), c02ptr(b.s[p], b.null[p]))
		case "like":
			if l.arg == "all" {
				return !xn
			}
			return !xn && len(x) > 0 && x[0] == 'b'
		case "ilike":
			if l.arg == "all" {
				return !xn
			}
			return !xn && len(x) > 0 && (x[0] == 'b' || x[0] == 'B')
		}
		y, yn := l.cs, false
		if l.arg == "col" {
			y, yn = b.s[p], b.null[p]
		}
		if xn || yn {
			return l.cmp == "!="
		}
		if l.typ == "enum" && l.cmp != "=" && l.cmp != "!=" {
			return c02cmpInt(l.cmp, vxEnumRank(x), vxEnumRank(y))
		}
		return c02cmpStr(l.cmp, x, y)
	}
	panic("c02 ref: unsupported leaf " + l.typ + " " + l.cmp + " " + l.arg)
}

// VX_C02_leaf: leaf kernel K in a clause context, on a frame with arbitrary index.
func VX_C02_leaf() {
	typ, cmp, arg, ctx := vx.ParamStr("typ"), vx.ParamStr("cmp"), vx.ParamStr("arg"), vx.ParamStr("ctx")
	n, P := vx.ParamInt("n"), vx.ParamInt("P")
	strLen := 1
	if vx.HasParam("strlen") {
		strLen = vx.ParamInt("strlen")
	}
	btyp := "int"
	if arg == "col" {
		btyp = typ
	}
	if vx.HasParam("btyp") {
		btyp = vx.ParamStr("btyp")
	}
	if vx.HasParam("ev") {
		vxEnumN = vx.ParamInt("ev")
	}
	a := vxMakeCol(typ, P, strLen)
	b := vxMakeCol(btyp, P, strLen)
	if arg == "pat" && typ == "string" {
		for _, sv := range a.s {
			for k := 0; k < len(sv); k++ {
				vx.Assume(sv[k] < 0x80)
			}
		}
	}
	x := vxMakeCol("int", P, 0)
	var ixv []uint32
	if typ == "string" || typ == "enum" {
		ixv = vxConcIndex(n, P)
	} else {
		ixv = vxIndex(n, P)
	}
	if typ != btyp && arg == "col" {
		// int/float promotion: the conversion itself is Go's; keep the integers
		// exactly representable so that the solver query stays tractable.
		for _, v := range a.i {
			vx.Assume(v > -(1<<20) && v < 1<<20)
		}
		for _, v := range b.i {
			vx.Assume(v > -(1<<20) && v < 1<<20)
		}
	}
	f := vxFrame([]string{"a", "b", "x"}, []vxCol{a, b, x}, ixv)
	k := c02mkLeaf(typ, cmp, arg, strLen)
	cl, cm := vx.Int(), vx.Int()
	K := k.filter()
	L := Filter{Column: "x", Comparator: ">", Arg: cl}
	M := Filter{Column: "x", Comparator: "<", Arg: cm}
	var clause FilterClause
	switch ctx {
	case "leaf":
		clause = K
	case "not":
		clause = Not(K)
	case "inv":
		K.Inverse = true
		clause = K
	case "notnot":
		clause = Not(Not(K))
	case "not_and1":
		clause = Not(And(K))
	case "and":
		clause = And(K, L)
	case "and_rev":
		clause = And(L, K)
	case "or":
		clause = Or(K, L)
	case "or_rev":
		clause = Or(L, K)
	case "or_inv": // adjacent plain filters in one Or, the second one negated through Inverse
		K.Inverse = true
		clause = Or(L, K)
	case "or_inv_first":
		K.Inverse = true
		clause = Or(K, L)
	case "and_inv":
		K.Inverse = true
		clause = And(L, K)
	case "or_notinv": // a doubly negated leaf (Not of an inverted filter) next to another leaf in an Or
		K.Inverse = true
		clause = Or(Not(K), L)
	case "and_notinv":
		K.Inverse = true
		clause = And(L, Not(K))
	case "or_notl":
		clause = Or(K, Not(L))
	case "or_notk":
		clause = Or(L, Not(K))
	case "not_or":
		clause = Not(Or(K, L))
	case "and_or":
		clause = And(Or(K, L), M)
	case "or_and":
		clause = Or(And(K, L), M)
	case "or3":
		clause = Or(L, K, M)
	default:
		panic("unknown ctx " + ctx)
	}
	r := f.Filter(clause)
	vx.Check(r.Err == nil, "no error for a valid clause")
	vx.Check(len(r.columns) == 3 && r.columns[0].name == "a" && r.columns[1].name == "b" && r.columns[2].name == "x", "columns intact")
	out := r.index
	xv := r.MustIntView("x")
	j := 0
	for row := 0; row < n; row++ {
		p := int(ixv[row])
		kv := k.ref(a, b, p)
		lv := x.i[p] > cl
		mv := x.i[p] < cm
		var want bool
		switch ctx {
		case "leaf", "notnot":
			want = kv
		case "not", "inv", "not_and1":
			want = vx.Not(kv)
		case "and", "and_rev", "and_notinv":
			want = vx.And(kv, lv)
		case "or", "or_rev", "or_notinv":
			want = vx.Or(kv, lv)
		case "or_notl":
			want = vx.Or(kv, vx.Not(lv))
		case "or_notk", "or_inv", "or_inv_first":
			want = vx.Or(lv, vx.Not(kv))
		case "and_inv":
			want = vx.And(lv, vx.Not(kv))
		case "not_or":
			want = vx.Not(vx.Or(kv, lv))
		case "and_or":
			want = vx.And(vx.Or(kv, lv), mv)
		case "or_and":
			want = vx.Or(vx.And(kv, lv), mv)
		case "or3":
			want = vx.Or(vx.Or(lv, kv), mv)
		}
		kept := false
		if j < len(out) && out[j] == ixv[row] {
			kept = true
			vx.Check(xv.ItemAt(j) == x.i[p], "kept row carries its own cells")
			j++
		}
		vx.Check(kept == want, "row kept iff clause true")
	}
	vx.Check(j == len(out), "nothing else kept, order preserved")
	vx.Reach("end")
}
