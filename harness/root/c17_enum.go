package qframe

// C17: enum columns keep their declared value set and order; derived enums
// accept up to 255 distinct values.

import (
	"strings"

	"github.com/tobgu/qframe/config/csv"
	"github.com/tobgu/qframe/config/groupby"
	"github.com/tobgu/qframe/config/newqf"
	"github.com/tobgu/qframe/internal/vx"
)

// c17name is the k-th enum value name: two bytes, and the declared order is the
// REVERSE of the alphabetical one (value 0 is "Pp", the largest name).
func c17name(k int) string {
	r := 255 - k
	return string([]byte{byte('A' + r/16), byte('a' + r%16)})
}

// c17symName builds c17name(k) for a symbolic k (fork free, byte arithmetic only).
func c17symName(k int) string {
	r := uint8(255) - uint8(k)
	return string([]byte{'A' + r>>4, 'a' + r&15})
}

// c17idx returns a symbolic value index in [0,K) as an int derived from one byte.
func c17idx(K int) int {
	b := vx.Byte()
	vx.Assume(int(b) < K)
	return int(b)
}

func c17declared(K int) []string {
	v := make([]string, K)
	for k := range v {
		v[k] = c17name(k)
	}
	return v
}

func c17cmp(cmp string, x, y int) bool {
	switch cmp {
	case "<":
		return x < y
	case "<=":
		return x <= y
	case ">":
		return x > y
	case ">=":
		return x >= y
	case "=":
		return x == y
	}
	return x != y
}

// VX_C17_order: comparisons and Sort follow the declared order, not the alphabet.
func VX_C17_order() {
	K := vx.ParamInt("K")
	cidx := vx.ParamInt("const") // index of the (concrete) constant
	cmp := vx.ParamStr("cmp")
	vals := c17declared(K)
	n := 2
	ks := make([]int, n)
	data := make([]*string, n+1)
	for r := 0; r < n; r++ {
		ks[r] = c17idx(K)
		s := c17symName(ks[r])
		data[r] = &s
	}
	// last row is null
	f := New(map[string]interface{}{"e": data}, newqf.Enums(map[string][]string{"e": vals}))
	vx.Check(f.Err == nil, "declared values are accepted")
	if f.Err != nil {
		return
	}
	var r QFrame
	if cmp == "in" {
		other := vx.ParamInt("const2")
		r = f.Filter(Filter{Column: "e", Comparator: "in", Arg: []string{vals[cidx], vals[other]}})
		vx.Check(r.Err == nil, "in: no error")
		j := 0
		for row := 0; row < n; row++ {
			want := vx.Or(ks[row] == cidx, ks[row] == other)
			kept := false
			if j < len(r.index) && r.index[j] == uint32(row) {
				kept = true
				j++
			}
			vx.Check(kept == want, "in follows the declared values")
		}
		vx.Check(j == len(r.index), "null never matches in")
		vx.Reach("end")
		return
	}
	r = f.Filter(Filter{Column: "e", Comparator: cmp, Arg: vals[cidx]})
	vx.Check(r.Err == nil, "comparison: no error")
	j := 0
	for row := 0; row < n; row++ {
		want := c17cmp(cmp, ks[row], cidx)
		kept := false
		if j < len(r.index) && r.index[j] == uint32(row) {
			kept = true
			j++
		}
		vx.Check(kept == want, "comparison follows the declared order")
	}
	nullKept := j < len(r.index) && r.index[j] == uint32(n)
	vx.Check(nullKept == (cmp == "!="), "null is only matched by !=")
	// Sort by declared rank, null first
	srt := f.Sort(Order{Column: "e"})
	vx.Check(srt.index[0] == uint32(n), "null sorts first")
	vx.Check(vx.Or(vx.And(srt.index[1] == 0, ks[0] <= ks[1]), vx.And(srt.index[1] == 1, ks[1] <= ks[0])), "Sort follows the declared order")
	// null placement for every size of the value set (rank tables of the full cardinality)
	nl := f.Sort(Order{Column: "e", NullLast: true})
	vx.Check(nl.index[n] == uint32(n), "NullLast: null sorts last")
	vx.Check(vx.Or(vx.And(nl.index[0] == 0, ks[0] <= ks[1]), vx.And(nl.index[0] == 1, ks[1] <= ks[0])), "NullLast: values follow the declared order")
	rv := f.Sort(Order{Column: "e", Reverse: true})
	vx.Check(rv.index[n] == uint32(n), "Reverse: null sorts last")
	vx.Check(vx.Or(vx.And(rv.index[0] == 0, ks[0] >= ks[1]), vx.And(rv.index[0] == 1, ks[1] >= ks[0])), "Reverse: values follow the reversed declared order")
	rn := f.Sort(Order{Column: "e", Reverse: true, NullLast: true})
	vx.Check(rn.index[0] == uint32(n), "Reverse+NullLast: null sorts first")
	// a sort that leaves the first and the last row in place (null last): Slice() and ItemAt agree
	var frs []QFrame
	if K <= 3 { // reading cells with a symbolic value index forks per declared value: small lists only
		frs = []QFrame{srt, f.Sort(Order{Column: "e", NullLast: true}), f.Sort(Order{Column: "e", Reverse: true, NullLast: true})}
	}
	for _, fr := range frs {
		ev := fr.MustEnumView("e")
		sl := ev.Slice()
		vx.Check(len(sl) == ev.Len(), "Slice: length")
		for r := 0; r < ev.Len() && r < len(sl); r++ {
			p, q := ev.ItemAt(r), sl[r]
			vx.Check((p == nil) == (q == nil) && (p == nil || *p == *q), "EnumView.Slice agrees with ItemAt on a sorted frame")
		}
	}
	vx.Reach("end")
}

// VX_C17_items: cells come back as exactly the declared string (concrete boundary positions).
func VX_C17_items() {
	K := vx.ParamInt("K")
	vals := c17declared(K)
	idx := []int{0, K / 2, K - 1}
	data := make([]*string, 0)
	for _, k := range idx {
		s := vals[k]
		data = append(data, &s)
	}
	data = append(data, nil)
	f := New(map[string]interface{}{"e": data}, newqf.Enums(map[string][]string{"e": vals}))
	vx.Check(f.Err == nil, "declared values are accepted")
	v := f.MustEnumView("e")
	for r, k := range idx {
		p := v.ItemAt(r)
		vx.Check(p != nil && *p == vals[k], "value reported as itself")
	}
	vx.Check(v.ItemAt(len(idx)) == nil, "null stays null")
	vx.Reach("end")
}

// VX_C17_undeclared: construction and filtering with undeclared values fail.
func VX_C17_undeclared() {
	K := vx.ParamInt("K")
	vals := c17declared(K)
	bad := vx.Str(2)
	known := false
	for _, v := range vals {
		known = vx.Or(known, bad == v)
	}
	vx.Assume(!known)
	good := vals[0]
	f := New(map[string]interface{}{"e": []*string{&good, &bad}}, newqf.Enums(map[string][]string{"e": vals}))
	vx.Check(f.Err != nil, "undeclared value rejected at construction")
	c := New(map[string]interface{}{"e": ConstString{Val: &bad, Count: 2}}, newqf.Enums(map[string][]string{"e": vals}))
	vx.Check(c.Err != nil, "undeclared constant rejected at construction")
	g := New(map[string]interface{}{"e": []*string{&good, nil}}, newqf.Enums(map[string][]string{"e": vals}))
	vx.Check(g.Err == nil, "declared data accepted")
	for _, cmp := range []string{"=", "!=", "<", ">="} {
		r := g.Filter(Filter{Column: "e", Comparator: cmp, Arg: bad})
		vx.Check(r.Err != nil, "filter against an undeclared constant is an error")
		r2 := g.Filter(And(Filter{Column: "e", Comparator: "isnull"}, Filter{Column: "e", Comparator: "isnotnull"}, Filter{Column: "e", Comparator: cmp, Arg: bad}))
		vx.Check(r2.Err != nil, "also as a later member of an And whose earlier members leave no rows")
		r3 := g.Filter(Or(Filter{Column: "e", Comparator: "isnull"}, Filter{Column: "e", Comparator: "isnotnull"}, Filter{Column: "e", Comparator: cmp, Arg: bad}))
		vx.Check(r3.Err != nil, "also as a later member of an Or whose earlier members select every row")
	}
	vx.Reach("end")
}

// VX_C17_toomany: more than 255 declared values fail cleanly.
func VX_C17_toomany() {
	vals := c17declared(256)
	s := vals[0]
	f := New(map[string]interface{}{"e": []*string{&s}}, newqf.Enums(map[string][]string{"e": vals}))
	vx.Check(f.Err != nil, "256 declared values rejected")
	vx.Check(f.Len() == -1, "failed frame exposes no rows")
	vx.Reach("end")
}

// VX_C17_derived: derived enums take up to 255 distinct values and fail cleanly beyond.
func VX_C17_derived() {
	D := vx.ParamInt("D") // distinct concrete values present
	data := make([]*string, 0, D+3)
	for k := 0; k < D; k++ {
		s := c17name(k)
		data = append(data, &s)
	}
	// two symbolic cells: each either a duplicate of an existing value or fresh
	extra := 0
	var ks []int
	for t := 0; t < 2; t++ {
		k := c17idx(256)
		ks = append(ks, k)
		s := c17symName(k)
		data = append(data, &s)
	}
	fresh0 := ks[0] >= D
	fresh1 := vx.And(ks[1] >= D, ks[1] != ks[0])
	extra = vx.B2I(fresh0) + vx.B2I(fresh1)
	data = append(data, nil)
	f := New(map[string]interface{}{"e": data}, newqf.Enums(map[string][]string{"e": nil}))
	ok := D+extra <= 255
	vx.Check((f.Err == nil) == ok, "derived enum accepted iff at most 255 distinct values")
	if f.Err != nil {
		vx.Check(f.Len() == -1, "failed frame exposes no rows")
		vx.Reach("end-toomany")
		return
	}
	v := f.MustEnumView("e")
	// boundary cells keep their value, null stays distinct from value number 254
	for _, r := range []int{0, D - 1} {
		p := v.ItemAt(r)
		vx.Check(p != nil && *p == c17name(r), "no value reported as another or as null")
	}
	vx.Check(v.ItemAt(len(data)-1) == nil, "null stays null")
	r := f.Filter(Filter{Column: "e", Comparator: "isnull"})
	vx.Check(r.Len() == 1, "only the null cell is null")
	vx.Reach("end")
}

// VX_C17_csv_derived: a derived enum read from CSV takes 255 distinct values and fails cleanly on the 256th;
// D concrete distinct values, then one cell with a symbolic value index (a duplicate or a fresh value).
func VX_C17_csv_derived() {
	D := vx.ParamInt("D")
	var sb strings.Builder
	sb.WriteString("e\n")
	for k := 0; k < D; k++ {
		sb.WriteString(c17name(k) + "\n")
	}
	k := c17idx(256)
	doc := sb.String() + c17symName(k) + "\n"
	f := ReadCSV(strings.NewReader(doc), csv.Types(map[string]string{"e": "enum"}))
	fresh := k >= D
	ok := D+vx.B2I(fresh) <= 255
	vx.Check((f.Err == nil) == ok, "derived enum from CSV accepted iff at most 255 distinct values")
	if f.Err != nil {
		vx.Check(f.Len() == -1, "failed frame exposes no rows")
		vx.Reach("end-toomany")
		return
	}
	v := f.MustEnumView("e")
	for _, r := range []int{0, D - 1} {
		p := v.ItemAt(r)
		vx.Check(p != nil && *p == c17name(r), "no value reported as another or as null")
	}
	p := v.ItemAt(D)
	vx.Check(p != nil && *p == c17symName(k), "the last cell keeps its value")
	vx.Check(f.Filter(Filter{Column: "e", Comparator: "isnull"}).Len() == 0, "no value is null")
	vx.Reach("end")
}

// VX_C17_csv_declared: the declared value set stays in force for every read it is given to.
func VX_C17_csv_declared() {
	vals := map[string][]string{"e": {"c", "a", "b"}}
	opt := csv.EnumValues(vals)
	typ := csv.Types(map[string]string{"e": "enum"})
	c := vx.Str(1)
	vx.Assume(vx.And(vx.And(c[0] != ',', c[0] != '"'), vx.And(c[0] != '\n', c[0] != '\r')))
	declared := vx.Or(c == "a", vx.Or(c == "b", c == "c"))
	for round := 0; round < 3; round++ {
		var f QFrame
		if round < 2 {
			f = ReadCSV(strings.NewReader("e\nb\n"+c+"\nc\n"), typ, opt) // the same option value again
		} else {
			f = ReadCSV(strings.NewReader("e\nb\n"+c+"\nc\n"), typ, csv.EnumValues(vals)) // the same map again
		}
		vx.Check((f.Err == nil) == declared, "construction fails iff a cell is not a declared value (every read)")
		if f.Err == nil {
			// declared order c < a < b decides comparisons, not the order of appearance
			r := f.Filter(Filter{Column: "e", Comparator: "<", Arg: "b"})
			vx.Check(r.Err == nil && r.Len() == 1+vx.B2I(c != "b"), "comparison follows the declared order (every read)")
			vx.Check(f.Filter(Filter{Column: "e", Comparator: "=", Arg: "zz"}).Err != nil, "an undeclared constant is rejected (every read)")
		}
	}
	vx.Check(len(vals) == 1 && len(vals["e"]) == 3, "the caller's map is not modified")
	// an empty field (an undeclared value unless EmptyNull is set) in the first rows of the column
	h := ReadCSV(strings.NewReader("e,x\n,1\nb,2\n"), typ, csv.EnumValues(vals))
	vx.Check(h.Err != nil, "an empty leading cell is not a declared value")
	h2 := ReadCSV(strings.NewReader("e,x\n,1\n,2\nb,3\n"+c+",4\n"), typ, csv.EnumValues(vals), csv.EmptyNull(true))
	vx.Check((h2.Err == nil) == declared, "with EmptyNull leading empty cells are null")
	if h2.Err == nil {
		v := h2.MustEnumView("e")
		vx.Check(v.ItemAt(0) == nil && v.ItemAt(1) == nil && v.ItemAt(2) != nil && *v.ItemAt(2) == "b" && v.ItemAt(3) != nil && *v.ItemAt(3) == c, "cells after leading nulls keep their values")
	}
	d := ReadCSV(strings.NewReader("e,x\n,1\n"+c+",2\n,3\n"+c+",4\n"), typ) // derived values, empty string is a value
	vx.Check(d.Err == nil, "derived enum with empty strings")
	if d.Err == nil {
		v := d.MustEnumView("e")
		vx.Check(v.ItemAt(0) != nil && *v.ItemAt(0) == "" && v.ItemAt(1) != nil && *v.ItemAt(1) == c && v.ItemAt(2) != nil && *v.ItemAt(2) == "" && v.ItemAt(3) != nil && *v.ItemAt(3) == c, "derived enum: every cell keeps its value")
	}
	vx.Reach("end")
}

// VX_C17_slice_sorted: an enum column sorted by its declared order where the first and the last row
// stay in place and the middle rows swap: EnumView.Slice() and ItemAt show the declared order.
func VX_C17_slice_sorted() {
	vals := []string{"top", "mid", "low", "zzz"} // declared order, not alphabetical
	cells := []string{"top", "low", "mid", "zzz"}
	k := vxConc(vx.IntN(0, 1), 2) // the solver picks which of two layouts
	if k == 1 {
		cells = []string{"top", "low", "low", "mid", "zzz"}
	}
	data := make([]*string, len(cells))
	for i := range cells {
		s := cells[i]
		data[i] = &s
	}
	f := New(map[string]interface{}{"e": data}, newqf.Enums(map[string][]string{"e": vals}))
	srt := f.Sort(Order{Column: "e"})
	vx.Check(srt.Err == nil, "Sort: no error")
	ev := srt.MustEnumView("e")
	sl := ev.Slice()
	rank := func(s string) int {
		for i, v := range vals {
			if v == s {
				return i
			}
		}
		return -1
	}
	vx.Check(len(sl) == len(cells), "Slice: length")
	for r := 0; r < len(sl); r++ {
		p := ev.ItemAt(r)
		vx.Check(p != nil && sl[r] != nil && *p == *sl[r], "EnumView.Slice agrees with ItemAt on a sorted frame")
		if r > 0 && sl[r] != nil && sl[r-1] != nil {
			vx.Check(rank(*sl[r-1]) <= rank(*sl[r]), "Slice shows the declared order")
		}
	}
	vx.Reach("end")
}

// VX_C17_history: the declared value set and order stay with the column through operations that build
// new columns or frames (Aggregate's key columns, Distinct, Sort, Filter, Copy): comparisons against a
// declared value that does not occur in the data, `in` with every declared value (nulls never match),
// undeclared constants.
func VX_C17_history() {
	op := vx.ParamStr("op")
	vals := []string{"low", "medium", "high", "critical"} // declared order, not alphabetical
	present := []int{0, 2, 3}                               // "medium" never occurs in the data
	n := 3
	data := make([]*string, n)
	nums := make([]int, n)
	for r := 0; r < n; r++ {
		k := vxConc(vx.IntN(0, 3), 4)
		if k < 3 {
			s := vals[present[k]]
			data[r] = &s
		}
		nums[r] = r + 1
	}
	f := New(map[string]interface{}{"e": data, "n": nums}, newqf.Enums(map[string][]string{"e": vals}))
	vx.Assume(f.Err == nil)
	vx.ConstrainHash(3, 0) // grouping is not the subject here: one probe chain
	g := f
	switch op {
	case "none":
	case "aggregate":
		g = f.GroupBy(groupby.Columns("e"), groupby.Null(true)).Aggregate(Aggregation{Fn: "sum", Column: "n"})
	case "distinct":
		g = f.Distinct(groupby.Columns("e"), groupby.Null(true))
	case "sort":
		g = f.Sort(Order{Column: "e", Reverse: true})
	case "filter":
		g = f.Filter(Filter{Column: "n", Comparator: ">", Arg: 1})
	case "copy":
		g = f.Copy("e2", "e").Drop("e").Copy("e", "e2")
	case "qframes":
		qs, err := f.GroupBy(groupby.Columns("e"), groupby.Null(true)).QFrames()
		vx.Assume(err == nil && len(qs) > 0)
		g = qs[len(qs)-1]
	}
	vx.Check(g.Err == nil, "derived frame: no error")
	if g.Err != nil {
		return
	}
	ev := g.MustEnumView("e")
	rank := make([]int, ev.Len())
	for r := range rank {
		rank[r] = -1
		if p := ev.ItemAt(r); p != nil {
			for k, v := range vals {
				if *p == v {
					rank[r] = k
				}
			}
			vx.Check(rank[r] >= 0, "cell holds a declared value")
		}
	}
	count := func(q QFrame) int {
		if q.Err != nil {
			return -1
		}
		return q.Len()
	}
	for _, cmp := range []string{"<", "<=", ">", ">="} {
		for _, c := range []int{1, 2} {
			want := 0
			for _, k := range rank {
				if k >= 0 && c17cmp(cmp, k, c) {
					want++
				}
			}
			r := g.Filter(Filter{Column: "e", Comparator: cmp, Arg: vals[c]})
			vx.Check(count(r) == want, "comparison with a declared value follows the declared order after "+op)
		}
	}
	nonNull := 0
	for _, k := range rank {
		if k >= 0 {
			nonNull++
		}
	}
	all := g.Filter(Filter{Column: "e", Comparator: "in", Arg: append([]string{}, vals...)})
	vx.Check(count(all) == nonNull, "in with every declared value keeps exactly the non-null rows after "+op)
	ninv := g.Filter(Not(Filter{Column: "e", Comparator: "in", Arg: append([]string{}, vals...)}))
	vx.Check(count(ninv) == len(rank)-nonNull, "not in with every declared value keeps exactly the null rows after "+op)
	pat := g.Filter(Filter{Column: "e", Comparator: "like", Arg: "%"})
	vx.Check(count(pat) == nonNull, "like % keeps exactly the non-null rows after "+op)
	bad := g.Filter(Filter{Column: "e", Comparator: ">", Arg: "urgent"})
	vx.Check(bad.Err != nil, "an undeclared constant is an error after "+op)
	srt := g.Sort(Order{Column: "e"})
	sv := srt.MustEnumView("e")
	last := -2
	for r := 0; r < sv.Len(); r++ {
		k := -1
		if p := sv.ItemAt(r); p != nil {
			for j, v := range vals {
				if *p == v {
					k = j
				}
			}
		}
		vx.Check(k >= last, "Sort follows the declared order after "+op)
		last = k
	}
	vx.Reach("end")
}
