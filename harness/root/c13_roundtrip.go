package qframe

// C13: ToCSV followed by ReadCSV (types declared) reproduces the frame.
// The real encoding/csv.Writer, bufio and the CSV scanner run on symbolic cells.

import (
	"bytes"
	"strings"

	"github.com/tobgu/qframe/config/csv"
	"github.com/tobgu/qframe/internal/vx"
)

// c13str: a non-null string cell of 0..maxLen bytes over the CSV-relevant alphabet (no CR).
func c13bytes(s string) {
	for k := 0; k < len(s); k++ {
		b := s[k]
		ok := vx.Or(vx.Or(vx.Or(b == ',', b == '"'), vx.Or(b == '\n', b == ' ')), vx.Or(vx.Or(b == 'a', b == '\\'), vx.Or(b == '.', vx.Or(b == 0x80, b == 0xC3))))
		vx.Assume(ok)
	}
}

func VX_C13_roundtrip() {
	typs := strings.Split(vx.ParamStr("types"), ",")
	n, strLen := vx.ParamInt("n"), vx.ParamInt("strlen")
	header, emptyNull := vx.ParamBool("header"), vx.ParamBool("emptynull")
	reorder := vx.ParamBool("reorder")
	P := n + 1
	all := []string{"a", "b"}
	names := all[:len(typs)]
	cols := make([]vxCol, len(typs))
	for k, t := range typs {
		switch t {
		case "string":
			c := vxCol{typ: "string", s: make([]string, P), null: make([]bool, P)}
			for p := range c.s {
				c.s[p], c.null[p] = vxStrCell(strLen, true)
				c13bytes(c.s[p])
			}
			cols[k] = c
		case "enum":
			cols[k] = vxMakeColLite("enum", P)
		default:
			cols[k] = vxMakeCol(t, P, 0)
		}
	}
	ix := make([]uint32, n)
	for k := range ix {
		ix[k] = uint32(n - k) // rows P-1 .. 1 in reverse order
	}
	f := vxFrame(names, cols, ix)
	// write
	w := &vxBuf{}
	order := names
	var wopts []csv.ToConfigFunc
	if !header {
		wopts = append(wopts, csv.Header(false))
	}
	if reorder && len(names) == 2 {
		order = []string{names[1], names[0]}
		wopts = append(wopts, csv.Columns(order))
	}
	err := f.ToCSV(w, wopts...)
	vx.Check(err == nil, "ToCSV: no error")
	// read back with the types declared
	tmap := map[string]string{}
	emap := map[string][]string{}
	for k, t := range typs {
		tmap[names[k]] = t
		if t == "enum" {
			emap[names[k]] = vxEnumVals
		}
	}
	ropts := []csv.ConfigFunc{csv.Types(tmap), csv.EmptyNull(emptyNull)}
	if len(emap) > 0 {
		ropts = append(ropts, csv.EnumValues(emap))
	}
	if !header {
		ropts = append(ropts, csv.Headers(order))
	}
	g := ReadCSV(bytes.NewReader(w.b), ropts...)
	vx.Check(g.Err == nil, "ReadCSV of what ToCSV wrote: no error")
	if g.Err != nil {
		return
	}
	// expectation: null strings come back as "" (or every empty as null with EmptyNull)
	ocols := make([]vxCol, len(order))
	for k, nm := range order {
		for j := range names {
			if names[j] != nm {
				continue
			}
			c := cols[j]
			if c.typ == "string" || c.typ == "enum" {
				c2 := vxCol{typ: c.typ, s: append([]string{}, c.s...), null: append([]bool{}, c.null...)}
				for p := range c2.s {
					if c2.null[p] {
						c2.s[p] = ""
					}
					empty := c2.null[p] || len(c2.s[p]) == 0
					c2.null[p] = empty && emptyNull
				}
				c = c2
			}
			ocols[k] = c
		}
	}
	vxCheckFrameVal(g, order, ocols, ix, "round trip")
	vx.Reach("end")
}
