package qframe

// C13: ToCSV followed by ReadCSV (types declared) reproduces the frame.
// The real encoding/csv.Writer, bufio and the CSV scanner run on symbolic cells.

import (
	"bytes"
	"math"
	"strings"

	"github.com/tobgu/qframe/config/csv"
	"github.com/tobgu/qframe/internal/vx"
)

// c13str: a non-null string cell of 0..maxLen bytes over the CSV-relevant alphabet (no CR).
func c13bytes(s string) {
	for k := 0; k < len(s); k++ {
		b := s[k]
		ok := vx.Or(vx.Or(vx.Or(b == ',', b == '"'), vx.Or(b == '\n', b == ' ')), vx.Or(vx.Or(b == 'a', b == '\\'), vx.Or(b == '.', vx.Or(b == 0x80, b == 0xC3))))
		vx.Assume(ok)
	}
}

func VX_C13_roundtrip() {
	typs := strings.Split(vx.ParamStr("types"), ",")
	n, strLen := vx.ParamInt("n"), vx.ParamInt("strlen")
	header, emptyNull := vx.ParamBool("header"), vx.ParamBool("emptynull")
	reorder := vx.ParamBool("reorder")
	P := n + 1
	full := vx.HasParam("ix") && vx.ParamStr("ix") == "full"
	if full {
		P = n // every physical row is in the frame, in a different order
	}
	all := []string{"a", "b"}
	names := all[:len(typs)]
	cols := make([]vxCol, len(typs))
	for k, t := range typs {
		switch t {
		case "string":
			c := vxCol{typ: "string", s: make([]string, P), null: make([]bool, P)}
			for p := range c.s {
				c.s[p], c.null[p] = vxStrCell(strLen, true)
				c13bytes(c.s[p])
			}
			cols[k] = c
		case "enum":
			c := vxMakeColLite("enum", P)
			for p := 1; p < P; p++ {
				// any cell may be null (written as an empty field) when EmptyNull reads it back as null; without
				// EmptyNull an empty field is the value "" which a declared enum cannot hold: the statement
				// only speaks of null *strings* there, so null enum cells are kept out of that setting
				c.null[p] = emptyNull && vxBoolConc(vx.Bool())
			}
			cols[k] = c
		default:
			cols[k] = vxMakeCol(t, P, 0)
		}
	}
	ix := make([]uint32, n)
	for k := range ix {
		ix[k] = uint32(n - k) // rows P-1 .. 1 in reverse order
	}
	if full {
		// a permutation that keeps the last row in place: 1,0,2,...
		for k := range ix {
			ix[k] = uint32(k)
		}
		if n >= 2 {
			ix[0], ix[1] = 1, 0
		}
	}
	f := vxFrame(names, cols, ix)
	// write
	w := &vxBuf{}
	order := names
	var wopts []csv.ToConfigFunc
	if !header {
		wopts = append(wopts, csv.Header(false))
	}
	if reorder && len(names) == 2 {
		order = []string{names[1], names[0]}
		wopts = append(wopts, csv.Columns(order))
	}
	err := f.ToCSV(w, wopts...)
	vx.Check(err == nil, "ToCSV: no error")
	// read back with the types declared
	tmap := map[string]string{}
	emap := map[string][]string{}
	for k, t := range typs {
		tmap[names[k]] = t
		if t == "enum" {
			emap[names[k]] = vxEnumVals
		}
	}
	ropts := []csv.ConfigFunc{csv.Types(tmap), csv.EmptyNull(emptyNull)}
	if len(emap) > 0 {
		ropts = append(ropts, csv.EnumValues(emap))
	}
	if !header {
		ropts = append(ropts, csv.Headers(order))
	}
	g := ReadCSV(bytes.NewReader(w.b), ropts...)
	vx.Check(g.Err == nil, "ReadCSV of what ToCSV wrote: no error")
	if g.Err != nil {
		return
	}
	// expectation: null strings come back as "" (or every empty as null with EmptyNull)
	ocols := make([]vxCol, len(order))
	for k, nm := range order {
		for j := range names {
			if names[j] != nm {
				continue
			}
			c := cols[j]
			if c.typ == "string" || c.typ == "enum" {
				c2 := vxCol{typ: c.typ, s: append([]string{}, c.s...), null: append([]bool{}, c.null...)}
				for p := range c2.s {
					if c2.null[p] {
						c2.s[p] = ""
					}
					empty := c2.null[p] || len(c2.s[p]) == 0
					c2.null[p] = empty && emptyNull
				}
				c = c2
			}
			ocols[k] = c
		}
	}
	vxCheckFrameVal(g, order, ocols, ix, "round trip")
	if vx.HasParam("later") {
		// the frame that was read back stays what it is when another document is read afterwards
		other := ReadCSV(strings.NewReader("p,q\nzzzzzzzz,yyyyyyyy\nxxxxxxxx,wwwwwwww\n"), csv.Types(map[string]string{"p": "string", "q": "string"}))
		vx.Check(other.Err == nil, "a later ReadCSV of another document")
		vxCheckFrameVal(g, order, ocols, ix, "round trip result after a later ReadCSV")
	}
	vx.Reach("end")
}

// VX_C13_specials: concrete numbers run through the real strconv/ToCSV/ReadCSV code
// (the number-text model is not involved): bit-identical floats incl. -0, infinities,
// subnormals; ints at the extremes.
func VX_C13_specials() {
	fs := []float64{math.Copysign(0, -1), 0, 0.1, -2.5e-7, 1e21, 123456789, 1e300, 5e-324, math.Inf(1), math.Inf(-1), math.NaN(), 1.7976931348623157e308, 0.30000000000000004}
	is := make([]int, len(fs))
	for k := range is {
		is[k] = []int{0, -1, 1, math.MaxInt64, math.MinInt64, 10, -10, 1000000007}[k%8]
	}
	pick := vxConc(vx.IntN(0, len(fs)-1), len(fs)) // which row goes first: the solver enumerates
	fs[0], fs[pick] = fs[pick], fs[0]
	f := New(map[string]interface{}{"f": fs, "i": is})
	w := &vxBuf{}
	vx.Check(f.ToCSV(w) == nil, "ToCSV: no error")
	g := ReadCSV(bytes.NewReader(w.b), csv.Types(map[string]string{"f": "float", "i": "int"}))
	vx.Check(g.Err == nil && g.Len() == len(fs), "ReadCSV: no error")
	if g.Err != nil || g.Len() != len(fs) {
		return
	}
	fv, iv := g.MustFloatView("f"), g.MustIntView("i")
	for k := range fs {
		x := fv.ItemAt(k)
		vx.Check(math.Float64bits(x) == math.Float64bits(fs[k]) || (x != x && fs[k] != fs[k]), "float comes back bit-identical (NaN preserved)")
		vx.Check(iv.ItemAt(k) == is[k], "int comes back identical")
	}
	vx.Reach("end")
}
