package qframe

// C04 / C05: GroupBy partitions by key, Aggregate summarises each group,
// Distinct keeps one row per key. The hash function is uninterpreted (engine
// model of internal/hash.HashBytes), so the solver chooses every collision.

import (
	"math"
	"strings"

	"github.com/tobgu/qframe/config/groupby"
	"github.com/tobgu/qframe/internal/index"
	"github.com/tobgu/qframe/internal/vx"
)

// c04keyEq: statement's key equality of physical rows p,q on column c.
func c04keyEq(c vxCol, p, q int, nullEq bool) bool {
	switch c.typ {
	case "int":
		return c.i[p] == c.i[q]
	case "float":
		x, y := c.f[p], c.f[q]
		if nullEq {
			return vx.Or(x == y, vx.And(math.IsNaN(x), math.IsNaN(y)))
		}
		return x == y
	case "bool":
		return c.b[p] == c.b[q]
	}
	xn, yn := c.null[p], c.null[q]
	if xn || yn {
		return xn && yn && nullEq
	}
	return c.s[p] == c.s[q]
}

func c04rowsEq(keys []vxCol, p, q int, nullEq bool) bool {
	r := true
	for _, k := range keys {
		r = vx.And(r, c04keyEq(k, p, q, nullEq))
	}
	return r
}

// c04fixedIndex: n rows of P=n+1 physical rows, in a non-identity order.
func c04index(n int, mode string) []uint32 {
	switch mode {
	case "rev":
		ix := make([]uint32, n)
		for k := range ix {
			ix[k] = uint32(n - k)
		}
		return ix
	case "any":
		return vxConcIndex(n, n+1)
	}
	panic("ixmode")
}

type c04setup struct {
	f      QFrame
	keys   []vxCol
	knames []string
	vi, vf vxCol
	vb     vxCol
	vs     vxCol // concrete, pairwise different strings (one null): which string lands where is the question
	ix     []uint32
	nullEq bool
	n      int
}

func c04make() c04setup {
	var s c04setup
	types := strings.Split(vx.ParamStr("types"), ",")
	if vx.ParamStr("types") == "" {
		types = nil
	}
	s.n = vx.ParamInt("n")
	s.nullEq = vx.ParamBool("null")
	if vx.ParamStr("slots") == "0" {
		vx.ConstrainHash(3, 0)
	}
	if vx.ParamStr("slots") == "017" {
		// start slots 0,1 (chain), 7 (wrap-around) of the 8-slot table
		vx.ConstrainHash(3, 0, 1, 7)
	}
	P := s.n + 1
	s.knames = []string{"k1", "k2"}[:len(types)]
	for _, t := range types {
		if vx.HasParam("kconc") && t == "enum" { // concrete enum key pattern with two nulls: more rows than keys
			c := vxCol{typ: "enum", s: make([]string, P), null: make([]bool, P)}
			for k := range c.s {
				c.s[k] = []string{"b", "c", "", "", "", "a"}[k%6]
				c.null[k] = k%6 >= 2 && k%6 <= 4
			}
			s.keys = append(s.keys, c)
			continue
		}
		if vx.HasParam("kconc") && t == "string" { // concrete string key pattern with three nulls
			c := vxCol{typ: "string", s: make([]string, P), null: make([]bool, P)}
			for k := range c.s {
				c.s[k] = []string{"b", "", "", "c", "", "b"}[k%6]
				c.null[k] = k%6 == 1 || k%6 == 2 || k%6 == 4
			}
			s.keys = append(s.keys, c)
			continue
		}
		if vx.HasParam("kconc") { // concrete bool key pattern: grouping itself is not the subject
			c := vxCol{typ: "bool", b: make([]bool, P)}
			for k := range c.b {
				c.b[k] = k%2 == 0
			}
			s.keys = append(s.keys, c)
			continue
		}
		s.keys = append(s.keys, vxMakeColLite(t, P))
	}
	s.vi, s.vf, s.vb = vxMakeCol("int", P, 0), vxMakeCol("float", P, 0), vxMakeCol("bool", P, 0)
	s.ix = c04index(s.n, vx.ParamStr("ix"))
	s.vs = vxCol{typ: "string", s: make([]string, P), null: make([]bool, P)}
	for k := range s.vs.s {
		s.vs.s[k] = "str" + string(rune('0'+k)) + strings.Repeat("x", k%3)
		s.vs.null[k] = k == 1
	}
	names := append(append([]string{}, s.knames...), "vi", "vf", "vb", "vs")
	cols := append(append([]vxCol{}, s.keys...), s.vi, s.vf, s.vb, s.vs)
	s.f = vxFrame(names, cols, s.ix)
	return s
}

func (s c04setup) cfg() []groupby.ConfigFunc {
	return []groupby.ConfigFunc{groupby.Columns(s.knames...), groupby.Null(s.nullEq)}
}

// pos returns the logical position of physical row id in the frame.
func (s c04setup) pos(id uint32) int {
	for k, v := range s.ix {
		if v == id {
			return k
		}
	}
	return -1
}

func VX_C04_groupby() {
	s := c04make()
	g := s.f.GroupBy(s.cfg()...)
	vx.Check(g.Err == nil, "GroupBy: no error")
	// (i) partition, each group in frame order
	group := make([]int, s.n) // logical row -> group number
	for k := range group {
		group[k] = -1
	}
	for gi, ix := range g.indices {
		vx.Check(len(ix) > 0, "no empty group")
		last := -1
		for _, id := range ix {
			p := s.pos(id)
			vx.Check(p >= 0, "group rows are frame rows")
			if p < 0 {
				return
			}
			vx.Check(group[p] == -1, "row in exactly one group")
			group[p] = gi
			vx.Check(p > last, "group rows in frame order")
			last = p
		}
	}
	for k := range group {
		vx.Check(group[k] >= 0, "every row is in a group")
	}
	// (ii) same group iff key-equal
	for a := 0; a < s.n; a++ {
		for b := a + 1; b < s.n; b++ {
			eq := c04rowsEq(s.keys, int(s.ix[a]), int(s.ix[b]), s.nullEq)
			vx.Check(eq == (group[a] == group[b]), "rows share a group iff keys are equal")
		}
	}
	// (iv) QFrames
	qfs, err := g.QFrames()
	vx.Check(err == nil && len(qfs) == len(g.indices), "QFrames: one frame per group")
	for gi, q := range qfs {
		vx.Check(q.Len() == len(g.indices[gi]), "QFrames: group size")
		xv := q.MustIntView("vi")
		for j, id := range g.indices[gi] {
			vx.Check(xv.ItemAt(j) == s.vi.i[id], "QFrames: rows of the group")
		}
	}
	// (iii) Aggregate
	if vx.ParamStr("agg") != "none" {
		c04aggregate(s, g, group)
	}
	vx.Reach("end")
}

func c04aggregate(s c04setup, g Grouper, group []int) {
	ufi := func(xs []int) int {
		args := make([]interface{}, len(xs))
		for k := range xs {
			args[k] = xs[k]
		}
		return vx.UFInt("aggI", args...)
	}
	r := g.Aggregate(
		Aggregation{Fn: "count", Column: "vi", As: "cnt"},
		Aggregation{Fn: "sum", Column: "vi", As: "isum"},
		Aggregation{Fn: "min", Column: "vi", As: "imin"},
		Aggregation{Fn: "max", Column: "vi", As: "imax"},
		Aggregation{Fn: ufi, Column: "vi", As: "iuser"},
		Aggregation{Fn: "sum", Column: "vf", As: "fsum"},
		Aggregation{Fn: "avg", Column: "vf", As: "favg"},
		Aggregation{Fn: "majority", Column: "vb", As: "bmaj"},
		// user functions that hand back one of their arguments
		Aggregation{Fn: func(xs []*string) *string { return xs[0] }, Column: "vs", As: "sfirst"},
		Aggregation{Fn: func(xs []*string) *string { return xs[len(xs)-1] }, Column: "vs", As: "slast"},
	)
	vx.Check(r.Err == nil, "Aggregate: no error")
	vx.Check(r.Len() == len(g.indices), "Aggregate: one row per group")
	names := r.ColumnNames()
	want := append(append([]string{}, s.knames...), "cnt", "isum", "imin", "imax", "iuser", "fsum", "favg", "bmaj", "sfirst", "slast")
	vx.Check(len(names) == len(want), "Aggregate: columns")
	for k := range want {
		vx.Check(k < len(names) && names[k] == want[k], "Aggregate: key columns then aggregates, in order")
	}
	cnt, isum, imin, imax, iuser := r.MustIntView("cnt"), r.MustIntView("isum"), r.MustIntView("imin"), r.MustIntView("imax"), r.MustIntView("iuser")
	fsum, favg, bmaj := r.MustFloatView("fsum"), r.MustFloatView("favg"), r.MustBoolView("bmaj")
	for gi, ix := range g.indices {
		// key cells equal the key of the group's rows
		for kk, kc := range s.keys {
			one := vxCol{typ: kc.typ}
			switch kc.typ {
			case "int":
				v, _ := r.IntView(s.knames[kk])
				one.i = []int{v.ItemAt(gi)}
				vx.Check(one.i[0] == kc.i[ix[0]], "Aggregate: key cell")
			case "float":
				v, _ := r.FloatView(s.knames[kk])
				x, y := v.ItemAt(gi), kc.f[ix[0]]
				vx.Check(vx.Or(x == y, vx.And(math.IsNaN(x), math.IsNaN(y))), "Aggregate: key cell")
			case "bool":
				v, _ := r.BoolView(s.knames[kk])
				vx.Check(v.ItemAt(gi) == kc.b[ix[0]], "Aggregate: key cell")
			default:
				vx.Check(vxCellSame(r, s.knames[kk], kc, gi, int(ix[0])), "Aggregate: key cell")
			}
		}
		// reference folds over the group's rows in frame order
		sum, mn, mx := 0, s.vi.i[ix[0]], s.vi.i[ix[0]]
		fs := 0.0
		t, fcount := 0, 0
		var members []int
		for _, id := range ix {
			v := s.vi.i[id]
			sum += v
			mn = vx.IteInt(v < mn, v, mn)
			mx = vx.IteInt(v > mx, v, mx)
			fs += s.vf.f[id]
			t += vx.B2I(s.vb.b[id])
			fcount += vx.B2I(vx.Not(s.vb.b[id]))
			members = append(members, v)
		}
		vx.Check(cnt.ItemAt(gi) == len(ix), "count")
		vx.Check(isum.ItemAt(gi) == sum, "sum(int)")
		vx.Check(imin.ItemAt(gi) == mn, "min(int)")
		vx.Check(imax.ItemAt(gi) == mx, "max(int)")
		vx.Check(iuser.ItemAt(gi) == ufi(members), "user aggregation sees exactly the group's values in frame order")
		vx.Check(vxFloatSame(fsum.ItemAt(gi), fs), "sum(float)")
		av := fs / float64(len(ix))
		vx.Check(vxFloatSame(favg.ItemAt(gi), av), "avg(float)")
		vx.Check(bmaj.ItemAt(gi) == (t > fcount), "majority(bool)")
		vx.Check(vxCellSame(r, "sfirst", s.vs, gi, int(ix[0])), "user aggregation returning its first argument")
		vx.Check(vxCellSame(r, "slast", s.vs, gi, int(ix[len(ix)-1])), "user aggregation returning its last argument")
	}
}

func VX_C05_distinct() {
	s := c04make()
	var r QFrame
	if vx.HasParam("warm") {
		// an earlier call on the same columns with the other Null setting (and a GroupBy) must not
		// influence this one (anything remembered per column between calls)
		w := s.f.Distinct(groupby.Columns(s.knames...), groupby.Null(!s.nullEq))
		vx.Assume(w.Err == nil)
		g := s.f.GroupBy(groupby.Columns(s.knames...), groupby.Null(!s.nullEq))
		vx.Assume(g.Err == nil)
	}
	if vx.ParamStr("cols") == "all" {
		// no columns given: all columns are the key
		r = s.f.Select(s.knames...).Distinct(groupby.Null(s.nullEq))
	} else {
		r = s.f.Distinct(s.cfg()...)
	}
	vx.Check(r.Err == nil, "Distinct: no error")
	out := append(index.Int{}, r.index...)
	// the source frame still has its rows, a second Distinct on it gives the same rows and
	// leaves the first result alone
	vx.Check(len(s.f.index) == s.n, "source frame keeps its length")
	for row := 0; row < s.n && row < len(s.f.index); row++ {
		vx.Check(s.f.index[row] == s.ix[row], "source frame keeps its rows after Distinct")
	}
	again := vx.ParamStr("cols") != "all"
	for _, k := range s.keys {
		// float keys with Null(false): every NaN draws a fresh random hash, a second call squares the paths
		again = again && !(k.typ == "float" && !s.nullEq)
	}
	if again {
		r2 := s.f.Distinct(s.cfg()...)
		vx.Check(len(r2.index) == len(out) && len(r.index) == len(out), "a second Distinct keeps as many rows")
		for j := range out {
			vx.Check(j < len(r.index) && r.index[j] == out[j], "the first result is unchanged by a second call")
		}
	}
	kept := make([]bool, s.n)
	for _, id := range out {
		p := s.pos(id)
		vx.Check(p >= 0, "kept rows are input rows")
		if p < 0 {
			return
		}
		vx.Check(!kept[p], "no row twice")
		kept[p] = true
	}
	for a := 0; a < len(out); a++ {
		for b := a + 1; b < len(out); b++ {
			vx.Check(vx.Not(c04rowsEq(s.keys, int(out[a]), int(out[b]), s.nullEq)), "kept rows have pairwise different keys")
		}
	}
	for row := 0; row < s.n; row++ {
		found := false
		for _, id := range out {
			found = vx.Or(found, vx.Or(id == s.ix[row], c04rowsEq(s.keys, int(s.ix[row]), int(id), s.nullEq)))
		}
		vx.Check(found, "every input row is represented")
	}
	if vx.ParamStr("cols") != "all" {
		xv := r.MustIntView("vi")
		for j, id := range out {
			vx.Check(xv.ItemAt(j) == s.vi.i[id], "kept rows are whole, unmodified rows")
		}
	}
	vx.Reach("end")
}
