package qframe

// C09: all observations of a frame agree; Equals is cell-wise equality;
// a frame rebuilt from the observed values is Equal and behaves equally.

import (
	"math"
	"strconv"
	"strings"

	"github.com/tobgu/qframe/config/newqf"
	"github.com/tobgu/qframe/internal/vx"
)

type vxBuf struct{ b []byte }

func (w *vxBuf) Write(p []byte) (int, error) {
	w.b = append(w.b, p...)
	return len(p), nil
}

// c09text is the text of physical cell p as the serialisers show it.
func c09text(c vxCol, p int, naRep string) string {
	switch c.typ {
	case "int":
		return strconv.FormatInt(int64(c.i[p]), 10)
	case "float":
		if vxBoolConc(math.IsNaN(c.f[p])) {
			return naRep
		}
		return strconv.FormatFloat(c.f[p], 'f', -1, 64)
	case "bool":
		if c.b[p] {
			return "true"
		}
		return "false"
	}
	if c.null[p] {
		return naRep
	}
	return c.s[p]
}

func c09fix(s, pad string, w int) string {
	if len(s) > w {
		return s[:w-3] + "..."
	}
	return strings.Repeat(pad, w-len(s)) + s
}

func VX_C09_observe() {
	n, P := vx.ParamInt("n"), vx.ParamInt("P")
	names := []string{"a", "f", "c", "s", "e"}
	cols := []vxCol{vxMakeColLite("int", P), vxMakeColLite("float", P), vxMakeColLite("bool", P), vxMakeColLite("string", P), vxMakeColLite("enum", P)}
	if vx.HasParam("ix") {
		// fewer value-shape forks in the extra index-shape job: no NaN, fixed bools
		for k := range cols[1].f {
			vx.Assume(cols[1].f[k] == cols[1].f[k])
			cols[2].b[k] = k%2 == 0
		}
	}
	var ix []uint32
	if vx.HasParam("ix") && vx.ParamStr("ix") == "swap01" {
		// full-length index, first two rows swapped, last row in place
		ix = vxIota(n)
		ix[0], ix[1] = 1, 0
	} else if vx.HasParam("ix") && vx.ParamStr("ix") == "mid" {
		// full-length index, first and last row in place, the middle permuted
		ix = vxIota(n)
		ix[1], ix[2] = 2, 1
	} else {
		ix = vxConcIndex(n, P)
	}
	f := vxFrame(names, cols, ix)
	if vx.HasParam("pre") && vx.ParamStr("pre") == "siblings" {
		// two frames derived from one parent by adding different columns: the first one is
		// observed after the second one was made
		p := f.Copy("p", "a")
		s1 := p.Copy("x", "a")
		s2 := p.Copy("y", "f")
		vx.Check(s2.Err == nil, "second sibling")
		f = s1
		names = append(append([]string{}, names...), "p", "x")
		cols = append(append([]vxCol{}, cols...), cols[0], cols[0])
	} else if vx.HasParam("pre") {
		// a frame obtained by projecting and then replacing a moved column
		f = f.Select("e", "s", "c", "f", "a").Copy("s", "e")
		names = []string{"e", "s", "c", "f", "a"}
		ec := cols[4]
		sc := ec
		sc.typ = "enum" // Copy shares the enum column under the name s
		cols = []vxCol{ec, sc, cols[2], cols[1], cols[0]}
	}
	vxCheckFrame(f, names, cols, ix, "views")
	if vx.HasParam("pre") {
		vx.Reach("end")
		return
	}
	// Slice() of every view
	ai := f.MustIntView("a").Slice()
	fi := f.MustFloatView("f").Slice()
	bi := f.MustBoolView("c").Slice()
	si := f.MustStringView("s").Slice()
	ei := f.MustEnumView("e").Slice()
	vx.Check(len(ai) == n && len(fi) == n && len(bi) == n && len(si) == n && len(ei) == n, "Slice: length")
	for r := 0; r < n; r++ {
		p := int(ix[r])
		vx.Check(ai[r] == cols[0].i[p], "Slice: int cell")
		vx.Check(math.Float64bits(fi[r]) == math.Float64bits(cols[1].f[p]), "Slice: float cell")
		vx.Check(bi[r] == cols[2].b[p], "Slice: bool cell")
		vx.Check((si[r] == nil) == cols[3].null[p] && (si[r] == nil || *si[r] == cols[3].s[p]), "Slice: string cell")
		vx.Check((ei[r] == nil) == cols[4].null[p] && (ei[r] == nil || *ei[r] == cols[4].s[p]), "Slice: enum cell")
	}
	// ToCSV through the recording model of encoding/csv.Writer
	vx.ModelCSVWriter()
	w := &vxBuf{}
	err := f.ToCSV(w)
	vx.Check(err == nil, "ToCSV: no error")
	recs := vx.CSVRecords(w.b)
	vx.Check(len(recs) == n+1, "ToCSV: header + one record per row")
	if len(recs) == n+1 {
		for k := range names {
			vx.Check(len(recs[0]) == len(names) && recs[0][k] == names[k], "ToCSV: header")
		}
		for r := 0; r < n; r++ {
			vx.Check(len(recs[r+1]) == len(names), "ToCSV: record width")
			for k := range names {
				vx.Check(recs[r+1][k] == c09text(cols[k], int(ix[r]), ""), "ToCSV: cell text")
			}
		}
	}
	// String()
	tl := []string{"i", "f", "b", "s", "e"}
	widths := make([]int, len(names))
	row := make([]string, len(names))
	var lines []string
	for k := range names {
		h := names[k] + "(" + tl[k] + ")"
		widths[k] = 5
		if len(h) > 5 {
			widths[k] = len(h)
		}
		row[k] = c09fix(h, " ", widths[k])
	}
	lines = append(lines, strings.Join(row, " "))
	for k := range names {
		row[k] = c09fix("", "-", widths[k])
	}
	lines = append(lines, strings.Join(row, " "))
	for r := 0; r < n; r++ {
		for k := range names {
			row[k] = c09fix(c09text(cols[k], int(ix[r]), "null"), " ", widths[k])
		}
		lines = append(lines, strings.Join(row, " "))
	}
	lines = append(lines, "\nDims = "+strconv.Itoa(len(names))+" x "+strconv.Itoa(n))
	vx.Check(f.String() == strings.Join(lines, "\n"), "String: printed rows")
	vx.Reach("end")
}

func c09cellEq(a vxCol, p int, b vxCol, q int) bool {
	switch a.typ {
	case "int":
		return a.i[p] == b.i[q]
	case "float":
		return vxFloatSame(a.f[p], b.f[q])
	case "bool":
		return a.b[p] == b.b[q]
	}
	if a.null[p] || b.null[q] {
		return a.null[p] && b.null[q]
	}
	return a.s[p] == b.s[q]
}

func c09skel(skel string, P int) ([]string, []vxCol) {
	switch skel {
	case "ifb":
		return []string{"a", "f", "c"}, []vxCol{vxMakeColLite("int", P), vxMakeColLite("float", P), vxMakeColLite("bool", P)}
	case "se":
		return []string{"s", "e"}, []vxCol{vxMakeColLite("string", P), vxMakeColLite("enum", P)}
	case "i":
		return []string{"a"}, []vxCol{vxMakeColLite("int", P)}
	}
	panic("skel")
}

func VX_C09_equals() {
	n, P := vx.ParamInt("n"), vx.ParamInt("P")
	skel := vx.ParamStr("skel")
	names, c1 := c09skel(skel, P)
	_, c2 := c09skel(skel, P)
	var ix1, ix2 []uint32
	if skel == "se" {
		ix1, ix2 = vxConcIndex(n, P), vxConcIndex(n, P)
	} else {
		ix1, ix2 = vxIndex(n, P), vxIndex(n, P)
	}
	f, g := vxFrame(names, c1, ix1), vxFrame(names, c2, ix2)
	if vx.HasParam("shared") {
		// both frames are views of one parent: same column storage, different rows
		c2 = c1
		base := vxFrame(names, c1, nil)
		i1, i2 := make([]uint32, n), make([]uint32, n)
		copy(i1, ix1)
		copy(i2, ix2)
		f, g = base.withIndex(i1), base.withIndex(i2)
	}
	eq := true
	for k := range names {
		for r := 0; r < n; r++ {
			p, q := int(ix1[r]), int(ix2[r])
			if skel == "se" {
				eq = eq && vxBoolConc(c09cellEq(c1[k], p, c2[k], q))
			} else {
				eq = vx.And(eq, c09cellEq(c1[k], p, c2[k], q))
			}
		}
	}
	e1, _ := f.Equals(g)
	e2, _ := g.Equals(f)
	vx.Check(e1 == eq, "Equals iff all cells equal")
	vx.Check(e2 == e1, "Equals is symmetric")
	r1, _ := f.Equals(f)
	vx.Check(r1, "Equals is reflexive")
	vx.Reach("end")
}

// VX_C09_mismatch: frames with different skeletons are never Equal.
func VX_C09_mismatch() {
	P := 2
	a := vxMakeColLite("int", P)
	s := vxMakeColLite("string", P)
	for k := range s.s {
		vx.Assume(vx.Or(s.s[k] == "b", s.s[k] == "c"))
	}
	e := s
	e.typ = "enum"
	ix := vxConcIndex(2, P)
	f := vxFrame([]string{"a", "s"}, []vxCol{a, s}, ix)
	var g QFrame
	switch vx.ParamStr("case") {
	case "renamed":
		g = vxFrame([]string{"a", "t"}, []vxCol{a, s}, ix)
	case "reordered":
		g = vxFrame([]string{"s", "a"}, []vxCol{s, a}, ix)
	case "enum_vs_string":
		g = vxFrame([]string{"a", "s"}, []vxCol{a, e}, ix)
	case "float_vs_int":
		fl := vxCol{typ: "float", f: make([]float64, P)}
		for k := range fl.f {
			fl.f[k] = float64(int8(a.i[k]))
		}
		g = vxFrame([]string{"a", "s"}, []vxCol{fl, s}, ix)
	case "fewer_cols":
		g = vxFrame([]string{"a"}, []vxCol{a}, ix)
	case "fewer_rows":
		g = vxFrame([]string{"a", "s"}, []vxCol{a, s}, ix[:1])
	default:
		panic("case")
	}
	e1, _ := f.Equals(g)
	e2, _ := g.Equals(f)
	vx.Check(!e1 && !e2, "different skeletons are not Equal")
	vx.Reach("end")
}

// VX_C09_rebuild: G = New(observed values of F) is Equal to F and stays Equal under operations.
func VX_C09_rebuild() {
	n, P := vx.ParamInt("n"), vx.ParamInt("P")
	names := []string{"a", "f", "c", "s", "e"}
	cols := []vxCol{vxMakeColLite("int", P), vxMakeColLite("float", P), vxMakeColLite("bool", P), vxMakeColLite("string", P), vxMakeColLite("enum", P)}
	ix := vxConcIndex(n, P)
	f := vxFrame(names, cols, ix)
	g := New(map[string]interface{}{
		"a": f.MustIntView("a").Slice(), "f": f.MustFloatView("f").Slice(), "c": f.MustBoolView("c").Slice(),
		"s": f.MustStringView("s").Slice(), "e": f.MustEnumView("e").Slice(),
	}, newqf.ColumnOrder(names...), newqf.Enums(map[string][]string{"e": vxEnumVals}))
	vx.Check(g.Err == nil, "rebuild: no error")
	eq, _ := f.Equals(g)
	vx.Check(eq, "rebuilt frame is Equal")
	c := vx.Int()
	var f2, g2 QFrame
	switch vx.ParamStr("op") {
	case "filter":
		cl := Filter{Column: "a", Comparator: "<", Arg: c}
		f2, g2 = f.Filter(cl), g.Filter(cl)
	case "sort":
		f2, g2 = f.Sort(Order{Column: "a"}, Order{Column: "f", Reverse: true}), g.Sort(Order{Column: "a"}, Order{Column: "f", Reverse: true})
		// ties may be ordered differently: compare only when the sort keys are pairwise distinct
		for r := 0; r < n; r++ {
			for q := r + 1; q < n; q++ {
				vx.Assume(cols[0].i[ix[r]] != cols[0].i[ix[q]])
			}
		}
	case "slice":
		f2, g2 = f.Slice(1, n), g.Slice(1, n)
	case "select":
		f2, g2 = f.Select("s", "a"), g.Select("s", "a")
	case "copy":
		f2, g2 = f.Copy("z", "f"), g.Copy("z", "f")
	case "distinct":
		f2, g2 = f.Select("c").Distinct(), g.Select("c").Distinct()
		vx.Assume(false) // order of Distinct is unspecified: not comparable row by row
	default:
		panic("op")
	}
	vx.Check(f2.Err == nil && g2.Err == nil, "op: no error")
	eq2, _ := f2.Equals(g2)
	vx.Check(eq2, "Equal frames give Equal results")
	vx.Reach("end")
}

// VX_C09_enum_dicts: Equals on enum columns whose value dictionaries differ (derived enums:
// the dictionary is whatever occurs in the data, in order of appearance).
func VX_C09_enum_dicts() {
	n := 3
	mk := func() ([]*string, []string, []bool) {
		ptrs := make([]*string, n)
		vals := make([]string, n)
		nulls := make([]bool, n)
		for r := 0; r < n; r++ {
			k := vxConc(vx.IntN(0, 3), 4) // null, or one of three values
			if k == 0 {
				nulls[r] = true
				continue
			}
			s := []string{"x", "b", "c"}[k-1]
			vals[r] = s
			ptrs[r] = &s
		}
		return ptrs, vals, nulls
	}
	p1, v1, n1 := mk()
	p2, v2, n2 := mk()
	f := New(map[string]interface{}{"e": p1}, newqf.Enums(map[string][]string{"e": nil}))
	g := New(map[string]interface{}{"e": p2}, newqf.Enums(map[string][]string{"e": nil}))
	vx.Assume(f.Err == nil && g.Err == nil)
	eq := true
	for r := 0; r < n; r++ {
		eq = eq && n1[r] == n2[r] && (n1[r] || v1[r] == v2[r])
	}
	e1, _ := f.Equals(g)
	e2, _ := g.Equals(f)
	vx.Check(e1 == eq, "Equals iff all cells equal (enum columns with different dictionaries)")
	vx.Check(e2 == eq, "Equals is symmetric")
	vx.Reach("end")
}
