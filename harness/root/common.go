package qframe

// Shared harness helpers (package qframe, injected by overlay).

import (
	"math"

	"github.com/tobgu/qframe/config/newqf"
	"github.com/tobgu/qframe/internal/index"
	"github.com/tobgu/qframe/internal/vx"
)

// vxEnumVals is the declared value list used by enum columns in harnesses:
// deliberately not in alphabetical order.
var vxEnumVals = []string{"b", "c", "a"}

// vxEnumN is how many of the declared values cells may take (harness bound).
var vxEnumN = 3

// vxCol holds the harness-side copy of a column's physical cells.
type vxCol struct {
	typ  string
	i    []int
	f    []float64
	b    []bool
	s    []string // for string/enum: value (meaningless when null)
	null []bool   // string/enum only
	zn   []bool   // string only, optional: the cell may be null or the empty string ("zero/null value")
}

// vxStrCell makes one string cell of length 0..maxLen (length concretised) with
// symbolic bytes, possibly null.
func vxStrCell(maxLen int, nullable bool) (string, bool) {
	if nullable && vx.Bool() {
		return "", true
	}
	n := vx.IntN(0, maxLen)
	switch n { // concretise
	case 0:
		return "", false
	case 1:
		return vx.Str(1), false
	case 2:
		return vx.Str(2), false
	default:
		return vx.Str(3), false
	}
}

// vxEnumCell picks a declared value or null.
func vxEnumCell(nullable bool) (string, bool) {
	if nullable && vx.Bool() {
		return "", true
	}
	k := vx.IntN(0, vxEnumN-1)
	switch k {
	case 0:
		return vxEnumVals[2], false
	case 1:
		return vxEnumVals[0], false
	default:
		return vxEnumVals[1], false
	}
}

func vxMakeCol(typ string, P int, strLen int) vxCol {
	c := vxCol{typ: typ}
	switch typ {
	case "int":
		c.i = make([]int, P)
		for k := range c.i {
			c.i[k] = vx.Int()
		}
	case "float":
		c.f = make([]float64, P)
		for k := range c.f {
			c.f[k] = vx.Float64()
		}
	case "bool":
		c.b = make([]bool, P)
		for k := range c.b {
			c.b[k] = vx.Bool()
		}
	case "string":
		c.s = make([]string, P)
		c.null = make([]bool, P)
		for k := range c.s {
			c.s[k], c.null[k] = vxStrCell(strLen, true)
		}
	case "enum":
		c.s = make([]string, P)
		c.null = make([]bool, P)
		for k := range c.s {
			c.s[k], c.null[k] = vxEnumCell(true)
		}
	default:
		panic("vxMakeCol: unknown type " + typ)
	}
	return c
}

// data returns the value handed to New for this column.
func (c vxCol) data() interface{} {
	switch c.typ {
	case "int":
		return append([]int{}, c.i...)
	case "float":
		return append([]float64{}, c.f...)
	case "bool":
		return append([]bool{}, c.b...)
	}
	out := make([]*string, len(c.s))
	for k := range c.s {
		if !c.null[k] {
			v := c.s[k]
			out[k] = &v
		}
	}
	return out
}

// vxIndex returns n pairwise distinct symbolic positions < P.
func vxIndex(n, P int) index.Int {
	ix := make(index.Int, n)
	for k := range ix {
		v := vx.IntN(0, P-1)
		for j := 0; j < k; j++ {
			vx.Assume(uint32(v) != ix[j])
		}
		ix[k] = uint32(v)
	}
	return ix
}

// vxConcIndex is vxIndex with every position concretised (forks P!/(P-n)! ways).
func vxConcIndex(n, P int) index.Int {
	ix := vxIndex(n, P)
	for k := range ix {
		ix[k] = uint32(vxConc(int(ix[k]), P))
	}
	return ix
}

// vxConc turns a small symbolic int in [0,hi) into a concrete one by case split.
func vxConc(v, hi int) int {
	for k := 0; k < hi; k++ {
		if v == k {
			return k
		}
	}
	vx.Assume(false)
	return 0
}

// vxFrame builds New(cols).withIndex(ix). Enum columns are declared.
func vxFrame(names []string, cols []vxCol, ix index.Int) QFrame {
	data := map[string]interface{}{}
	enums := map[string][]string{}
	for k, n := range names {
		data[n] = cols[k].data()
		if cols[k].typ == "enum" {
			enums[n] = vxEnumVals
		}
	}
	f := New(data, newqf.ColumnOrder(names...), newqf.Enums(enums))
	vx.Assume(f.Err == nil)
	if ix == nil {
		return f
	}
	// the frame gets its own copy: the harness keeps ix as the reference the frame is compared with
	own := make(index.Int, len(ix))
	copy(own, ix)
	return f.withIndex(own)
}

func vxEnumRank(s string) int {
	for k, v := range vxEnumVals {
		if v == s {
			return k
		}
	}
	return -1
}

// vxCellSame compares the cell of column name at logical row `row` of f (read
// through the typed view) with physical cell p of the harness copy c.
func vxCellSame(f QFrame, name string, c vxCol, row, p int) bool {
	switch c.typ {
	case "int":
		v, err := f.IntView(name)
		if err != nil {
			return false
		}
		return v.ItemAt(row) == c.i[p]
	case "float":
		v, err := f.FloatView(name)
		if err != nil {
			return false
		}
		return math.Float64bits(v.ItemAt(row)) == math.Float64bits(c.f[p])
	case "bool":
		v, err := f.BoolView(name)
		if err != nil {
			return false
		}
		return v.ItemAt(row) == c.b[p]
	case "string":
		v, err := f.StringView(name)
		if err != nil {
			return false
		}
		p = vxConc(p, len(c.s))
		s := v.ItemAt(row)
		if c.zn != nil && c.zn[p] {
			return s == nil || *s == ""
		}
		if c.null[p] {
			return s == nil
		}
		return s != nil && *s == c.s[p]
	case "enum":
		v, err := f.EnumView(name)
		if err != nil {
			return false
		}
		p = vxConc(p, len(c.s))
		s := v.ItemAt(row)
		if c.null[p] {
			return s == nil
		}
		return s != nil && *s == c.s[p]
	}
	panic("vxCellSame: type " + c.typ)
}

// vxCheckFrame asserts that f has exactly the given columns (order, type) and
// that logical row r shows physical row ix[r] of every column.
func vxCheckFrame(f QFrame, names []string, cols []vxCol, ix []uint32, label string) {
	vx.Check(f.Err == nil, label+": no error")
	vx.Check(f.Len() == len(ix), label+": row count")
	got := f.ColumnNames()
	vx.Check(len(got) == len(names), label+": column count")
	for k := range names {
		vx.Check(k < len(got) && got[k] == names[k], label+": column name/order")
	}
	for k, n := range names {
		for r := range ix {
			vx.Check(vxCellSame(f, n, cols[k], r, int(ix[r])), label+": cell value")
		}
	}
}

func vxIota(n int) []uint32 {
	ix := make([]uint32, n)
	for k := range ix {
		ix[k] = uint32(k)
	}
	return ix
}

func (c vxCol) len() int {
	switch c.typ {
	case "int":
		return len(c.i)
	case "float":
		return len(c.f)
	case "bool":
		return len(c.b)
	}
	return len(c.s)
}

// vxMakeColLite is vxMakeCol with few shape forks: strings are 1 symbolic byte,
// only cell 0 may be null; enum cells are a fork-free symbolic choice among the
// first two declared values ("b","c"), only cell 0 may be null.
func vxMakeColLite(typ string, P int) vxCol {
	if typ != "string" && typ != "enum" {
		return vxMakeCol(typ, P, 0)
	}
	c := vxCol{typ: typ, s: make([]string, P), null: make([]bool, P)}
	for k := range c.s {
		c.s[k] = vx.Str(1)
		if typ == "enum" {
			vx.Assume(vx.Or(c.s[k] == "b", c.s[k] == "c"))
		}
		if k == 0 && vx.Bool() {
			c.null[k] = true
		}
	}
	return c
}

// vxFloatSame: equal as values, NaN equal to NaN (fork free).
func vxFloatSame(x, y float64) bool {
	return vx.Or(x == y, vx.And(x != x, y != y))
}

// vxBoolConc forks on a symbolic bool and returns it as a concrete one.
func vxBoolConc(b bool) bool {
	if b {
		return true
	}
	return false
}

// vxCheckFrameVal is vxCheckFrame for a frame whose physical rows are the
// logical rows 0..n-1 of the expectation (a re-read frame): logical row r must
// show physical cell ix[r] of the expected columns; floats by value (NaN=NaN).
func vxCheckFrameVal(f QFrame, names []string, cols []vxCol, ix []uint32, label string) {
	vx.Check(f.Err == nil, label+": no error")
	vx.Check(f.Len() == len(ix), label+": row count")
	got := f.ColumnNames()
	vx.Check(len(got) == len(names), label+": column count")
	for k := range names {
		vx.Check(k < len(got) && got[k] == names[k], label+": column name/order")
	}
	if f.Len() != len(ix) || len(got) != len(names) {
		return
	}
	for k, n := range names {
		for r := range ix {
			p := int(ix[r])
			c := cols[k]
			if c.typ == "float" {
				v, err := f.FloatView(n)
				vx.Check(err == nil, label+": column type")
				if err == nil {
					x, y := v.ItemAt(r), c.f[p]
					vx.Check(vx.Or(math.Float64bits(x) == math.Float64bits(y), vx.And(x != x, y != y)), label+": float cell bit-identical (NaN preserved)")
				}
				continue
			}
			vx.Check(vxCellSame(f, n, c, r, p), label+": cell value")
		}
	}
}

// vxClone copies a string obtained from a view: StringView/EnumView hand out strings that alias the
// column's storage, and a snapshot that keeps them would change together with the storage (a harness
// must never share memory with the code under test).
func vxClone(s string) string {
	b := make([]byte, len(s))
	copy(b, s)
	return string(b)
}
