package qframe

// Shared harness helpers (package qframe, injected by overlay).

import (
	"github.com/tobgu/qframe/config/newqf"
	"github.com/tobgu/qframe/internal/index"
	"github.com/tobgu/qframe/internal/vx"
)

// vxEnumVals is the declared value list used by enum columns in harnesses:
// deliberately not in alphabetical order.
var vxEnumVals = []string{"b", "c", "a"}

// vxEnumN is how many of the declared values cells may take (harness bound).
var vxEnumN = 3

// vxCol holds the harness-side copy of a column's physical cells.
type vxCol struct {
	typ  string
	i    []int
	f    []float64
	b    []bool
	s    []string // for string/enum: value (meaningless when null)
	null []bool   // string/enum only
}

// vxStrCell makes one string cell of length 0..maxLen (length concretised) with
// symbolic bytes, possibly null.
func vxStrCell(maxLen int, nullable bool) (string, bool) {
	if nullable && vx.Bool() {
		return "", true
	}
	n := vx.IntN(0, maxLen)
	switch n { // concretise
	case 0:
		return "", false
	case 1:
		return vx.Str(1), false
	case 2:
		return vx.Str(2), false
	default:
		return vx.Str(3), false
	}
}

// vxEnumCell picks a declared value or null.
func vxEnumCell(nullable bool) (string, bool) {
	if nullable && vx.Bool() {
		return "", true
	}
	k := vx.IntN(0, vxEnumN-1)
	switch k {
	case 0:
		return vxEnumVals[2], false
	case 1:
		return vxEnumVals[0], false
	default:
		return vxEnumVals[1], false
	}
}

func vxMakeCol(typ string, P int, strLen int) vxCol {
	c := vxCol{typ: typ}
	switch typ {
	case "int":
		c.i = make([]int, P)
		for k := range c.i {
			c.i[k] = vx.Int()
		}
	case "float":
		c.f = make([]float64, P)
		for k := range c.f {
			c.f[k] = vx.Float64()
		}
	case "bool":
		c.b = make([]bool, P)
		for k := range c.b {
			c.b[k] = vx.Bool()
		}
	case "string":
		c.s = make([]string, P)
		c.null = make([]bool, P)
		for k := range c.s {
			c.s[k], c.null[k] = vxStrCell(strLen, true)
		}
	case "enum":
		c.s = make([]string, P)
		c.null = make([]bool, P)
		for k := range c.s {
			c.s[k], c.null[k] = vxEnumCell(true)
		}
	default:
		panic("vxMakeCol: unknown type " + typ)
	}
	return c
}

// data returns the value handed to New for this column.
func (c vxCol) data() interface{} {
	switch c.typ {
	case "int":
		return append([]int{}, c.i...)
	case "float":
		return append([]float64{}, c.f...)
	case "bool":
		return append([]bool{}, c.b...)
	}
	out := make([]*string, len(c.s))
	for k := range c.s {
		if !c.null[k] {
			v := c.s[k]
			out[k] = &v
		}
	}
	return out
}

// vxIndex returns n pairwise distinct symbolic positions < P.
func vxIndex(n, P int) index.Int {
	ix := make(index.Int, n)
	for k := range ix {
		v := vx.IntN(0, P-1)
		for j := 0; j < k; j++ {
			vx.Assume(uint32(v) != ix[j])
		}
		ix[k] = uint32(v)
	}
	return ix
}

// vxConcIndex is vxIndex with every position concretised (forks P!/(P-n)! ways).
func vxConcIndex(n, P int) index.Int {
	ix := vxIndex(n, P)
	for k := range ix {
		ix[k] = uint32(vxConc(int(ix[k]), P))
	}
	return ix
}

// vxConc turns a small symbolic int in [0,hi) into a concrete one by case split.
func vxConc(v, hi int) int {
	for k := 0; k < hi; k++ {
		if v == k {
			return k
		}
	}
	vx.Assume(false)
	return 0
}

// vxFrame builds New(cols).withIndex(ix). Enum columns are declared.
func vxFrame(names []string, cols []vxCol, ix index.Int) QFrame {
	data := map[string]interface{}{}
	enums := map[string][]string{}
	for k, n := range names {
		data[n] = cols[k].data()
		if cols[k].typ == "enum" {
			enums[n] = vxEnumVals
		}
	}
	f := New(data, newqf.ColumnOrder(names...), newqf.Enums(enums))
	vx.Assume(f.Err == nil)
	if ix == nil {
		return f
	}
	return f.withIndex(ix)
}

func vxEnumRank(s string) int {
	for k, v := range vxEnumVals {
		if v == s {
			return k
		}
	}
	return -1
}
