package qframe

// C18-B: a string column and an enum column holding the same values answer
// like/ilike identically; nulls never match.

import (
	"regexp"

	"github.com/tobgu/qframe/config/newqf"
	"github.com/tobgu/qframe/internal/vx"
)

func VX_C18_columns() {
	cmp, pattern := vx.ParamStr("cmp"), vx.ParamStr("pattern")
	P := 3
	s := vxMakeColLite("enum", P) // values over {"b","c"} (fork free), cell 0 nullable
	dup := vx.HasParam("dup")
	if dup {
		// an enum whose value list holds the same string twice: values b, B, c upper-cased by the built-in
		// ToUpper (which maps the value list); cells over {b, B}
		vxEnumVals = []string{"b", "B", "c"}
		for k := range s.s {
			s.s[k] = vx.Str(1)
			vx.Assume(vx.Or(s.s[k] == "b", s.s[k] == "B"))
		}
	}
	e := s
	s.typ = "string"
	ix := vxConcIndex(2, P)
	f := vxFrame([]string{"s", "e"}, []vxCol{s, e}, ix)
	if dup {
		f = f.Apply(Instruction{Fn: "ToUpper", DstCol: "s", SrcCol1: "s"}, Instruction{Fn: "ToUpper", DstCol: "e", SrcCol1: "e"})
		vx.Assume(f.Err == nil)
		up := vxCol{typ: "string", s: make([]string, P), null: s.null}
		for k := range up.s {
			up.s[k] = "B"
		}
		s = up
	}
	rs := f.Filter(Filter{Column: "s", Comparator: cmp, Arg: pattern})
	re := f.Filter(Filter{Column: "e", Comparator: cmp, Arg: pattern})
	if vx.HasParam("ctx") {
		// the pattern filter as a later member of an Or: rows selected by the earlier member stay selected
		rs = f.Filter(Or(Filter{Column: "s", Comparator: "=", Arg: "c"}, Filter{Column: "s", Comparator: cmp, Arg: pattern}))
		re = f.Filter(Or(Filter{Column: "e", Comparator: "=", Arg: "c"}, Filter{Column: "e", Comparator: cmp, Arg: pattern}))
		if rs.Err == nil {
			for _, p := range ix {
				if vxBoolConc(vx.And(!s.null[p], s.s[p] == "c")) {
					found := false
					for _, q := range rs.index {
						found = found || q == p
					}
					vx.Check(found, "a row selected by an earlier member of the Or stays selected")
				}
			}
		}
	}
	vx.Check((rs.Err == nil) == (re.Err == nil), "string and enum agree on validity of the pattern")
	if rs.Err != nil || re.Err != nil {
		vx.Reach("end-invalid")
		return
	}
	vx.Check(len(rs.index) == len(re.index), "string and enum column give the same rows")
	if len(rs.index) == len(re.index) {
		for k := range rs.index {
			vx.Check(rs.index[k] == re.index[k], "string and enum column give the same rows")
			vx.Check(!s.null[rs.index[k]], "nulls never match")
		}
		if dup && (pattern == "B" || pattern == "b%" && cmp == "ilike" || pattern == "%") {
			nn := 0
			for _, p := range ix {
				nn += vx.B2I(!s.null[p])
			}
			vx.Check(len(rs.index) == nn, "every non-null cell B matches")
		}
	}
	vx.Reach("end")
}

// VX_C18_filter_seq: the same pattern used by like and by ilike filters one after the other (both
// orders, twice) on string and enum columns with concrete cells: every call follows its own case rule
// whatever ran before it (state carried between calls). The rows are decided by Go's regexp on the
// documented translation of the pattern.
func VX_C18_filter_seq() {
	pattern := vx.ParamStr("pattern") // contains a metacharacter
	cells := []string{"abc", "ABC", "aXc", "xabc", "Abx", "abcd", ""}
	P := len(cells)
	sc := vxCol{typ: "string", s: cells, null: make([]bool, P)}
	ix := vxIota(P)
	k := vxConc(vx.IntN(0, P-1), P)
	ix[0], ix[k] = ix[k], ix[0]
	f := vxFrame([]string{"s"}, []vxCol{sc}, ix)
	g := New(map[string]interface{}{"e": append([]string{}, cells...)}, newqf.Enums(map[string][]string{"e": nil}))
	vx.Assume(g.Err == nil)
	want := func(ci bool) []uint32 {
		p := pattern
		rx := ""
		if ci {
			rx = "(?i)"
		}
		if len(p) > 0 && p[0] == '%' {
			p = p[1:]
		} else {
			rx += "^"
		}
		tail := "$"
		if len(p) > 0 && p[len(p)-1] == '%' {
			p = p[:len(p)-1]
			tail = ""
		}
		re := regexp.MustCompile(rx + p + tail)
		var out []uint32
		for _, r := range ix {
			if re.MatchString(cells[r]) {
				out = append(out, r)
			}
		}
		return out
	}
	order := []string{"like", "ilike", "like", "ilike"}
	if vx.ParamBool("first") {
		order = []string{"ilike", "like", "ilike", "like"}
	}
	for step, cmp := range order {
		col, fr := "s", f
		if step >= 2 {
			col, fr = "e", g.withIndex(append([]uint32{}, ix...))
		}
		r := fr.Filter(Filter{Column: col, Comparator: cmp, Arg: pattern})
		vx.Check(r.Err == nil, "valid pattern: no error")
		if r.Err != nil {
			return
		}
		w := want(cmp == "ilike")
		vx.Check(len(r.index) == len(w), "each filter follows its own case rule (row count)")
		if len(r.index) == len(w) {
			for j := range w {
				vx.Check(r.index[j] == w[j], "each filter follows its own case rule")
			}
		}
	}
	vx.Reach("end")
}
