package qframe

// C18-B: a string column and an enum column holding the same values answer
// like/ilike identically; nulls never match.

import (
	"github.com/tobgu/qframe/internal/vx"
)

func VX_C18_columns() {
	cmp, pattern := vx.ParamStr("cmp"), vx.ParamStr("pattern")
	P := 3
	s := vxMakeColLite("enum", P) // values over {"b","c"} (fork free), cell 0 nullable
	e := s
	s.typ = "string"
	ix := vxConcIndex(2, P)
	f := vxFrame([]string{"s", "e"}, []vxCol{s, e}, ix)
	rs := f.Filter(Filter{Column: "s", Comparator: cmp, Arg: pattern})
	re := f.Filter(Filter{Column: "e", Comparator: cmp, Arg: pattern})
	if vx.HasParam("ctx") {
		// the pattern filter as a later member of an Or: rows selected by the earlier member stay selected
		rs = f.Filter(Or(Filter{Column: "s", Comparator: "=", Arg: "c"}, Filter{Column: "s", Comparator: cmp, Arg: pattern}))
		re = f.Filter(Or(Filter{Column: "e", Comparator: "=", Arg: "c"}, Filter{Column: "e", Comparator: cmp, Arg: pattern}))
		if rs.Err == nil {
			for _, p := range ix {
				if vxBoolConc(vx.And(!s.null[p], s.s[p] == "c")) {
					found := false
					for _, q := range rs.index {
						found = found || q == p
					}
					vx.Check(found, "a row selected by an earlier member of the Or stays selected")
				}
			}
		}
	}
	vx.Check((rs.Err == nil) == (re.Err == nil), "string and enum agree on validity of the pattern")
	if rs.Err != nil || re.Err != nil {
		vx.Reach("end-invalid")
		return
	}
	vx.Check(len(rs.index) == len(re.index), "string and enum column give the same rows")
	if len(rs.index) == len(re.index) {
		for k := range rs.index {
			vx.Check(rs.index[k] == re.index[k], "string and enum column give the same rows")
			vx.Check(!s.null[rs.index[k]], "nulls never match")
		}
	}
	vx.Reach("end")
}
