package qframe

// C01 / C11: no operation alters an existing frame (observationally: C01) and
// no operation writes to memory that existed before the call (frozen-heap
// monitor of the engine: the sequential sufficient condition used for C11).

import (
	"math"
	"strings"

	"github.com/tobgu/qframe/config/eval"
	"github.com/tobgu/qframe/config/groupby"
	"github.com/tobgu/qframe/function"
	qsql "github.com/tobgu/qframe/config/sql"
	"github.com/tobgu/qframe/internal/vxsql"
	"github.com/tobgu/qframe/internal/vx"
	"github.com/tobgu/qframe/types"
)

type c01snap struct {
	n     int
	err   bool
	names []string
	typs  []string
	cells [][]c06cell // [col][row]
}

func c01observe(f QFrame) c01snap {
	s := c01snap{n: f.Len(), err: f.Err != nil}
	if s.err {
		return s
	}
	s.names = f.ColumnNames()
	for _, t := range f.ColumnTypes() {
		s.typs = append(s.typs, string(t))
	}
	tm := f.ColumnTypeMap()
	for k, name := range s.names {
		vx.Check(string(tm[name]) == s.typs[k], "ColumnTypeMap agrees with ColumnTypes")
	}
	for k, name := range s.names {
		var col []c06cell
		for r := 0; r < s.n; r++ {
			switch s.typs[k] {
			case "int":
				col = append(col, c06cell{typ: "int", i: f.MustIntView(name).ItemAt(r)})
			case "float":
				col = append(col, c06cell{typ: "float", f: f.MustFloatView(name).ItemAt(r)})
			case "bool":
				col = append(col, c06cell{typ: "bool", b: f.MustBoolView(name).ItemAt(r)})
			case "string":
				p := f.MustStringView(name).ItemAt(r)
				if p == nil {
					col = append(col, c06cell{typ: "string", null: true})
				} else {
					col = append(col, c06cell{typ: "string", s: vxClone(*p)})
				}
			case "enum":
				p := f.MustEnumView(name).ItemAt(r)
				if p == nil {
					col = append(col, c06cell{typ: "enum", null: true})
				} else {
					col = append(col, c06cell{typ: "enum", s: vxClone(*p)})
				}
			}
		}
		s.cells = append(s.cells, col)
	}
	return s
}

func c01same(a, b c01snap, who string) {
	vx.Check(a.n == b.n && a.err == b.err, who+": same length and Err")
	vx.Check(len(a.names) == len(b.names), who+": same columns")
	if len(a.names) != len(b.names) || a.n != b.n {
		return
	}
	for k := range a.names {
		vx.Check(a.names[k] == b.names[k] && a.typs[k] == b.typs[k], who+": same column name and type")
		for r := 0; r < a.n; r++ {
			x, y := a.cells[k][r], b.cells[k][r]
			switch x.typ {
			case "int":
				vx.Check(x.i == y.i, who+": same cell")
			case "float":
				vx.Check(math.Float64bits(x.f) == math.Float64bits(y.f), who+": same cell")
			case "bool":
				vx.Check(x.b == y.b, who+": same cell")
			default:
				vx.Check(x.null == y.null && (x.null || x.s == y.s), who+": same cell")
			}
		}
	}
}

// c01op applies operation `op` to f (g is a second family member for binary ops).
func c01op(op string, f, g QFrame) []QFrame {
	c := vx.Int()
	switch op {
	case "filter":
		return []QFrame{f.Filter(Filter{Column: "a", Comparator: ">", Arg: c})}
	case "filter_or":
		return []QFrame{f.Filter(Or(Filter{Column: "a", Comparator: ">", Arg: c}, Filter{Column: "f", Comparator: "isnull"}, Not(Filter{Column: "c", Comparator: "=", Arg: true})))}
	case "filter_notand":
		return []QFrame{f.Filter(Not(And(Filter{Column: "a", Comparator: "<", Arg: c}, Filter{Column: "s", Comparator: "isnotnull"})))}
	case "filter_inv":
		return []QFrame{f.Filter(Filter{Column: "a", Comparator: "<", Arg: c, Inverse: true})}
	case "sort":
		return []QFrame{f.Sort(Order{Column: "a", Reverse: true})}
	case "sort2":
		return []QFrame{f.Sort(Order{Column: "c"}, Order{Column: "f", NullLast: true})}
	case "slice":
		return []QFrame{f.Slice(0, f.Len()-1)}
	case "slice_tail":
		return []QFrame{f.Slice(1, f.Len())}
	case "select":
		return []QFrame{f.Select("s", "a")}
	case "drop":
		return []QFrame{f.Drop("f")}
	case "copy":
		return []QFrame{f.Copy("z", "a")}
	case "copy_y":
		return []QFrame{f.Copy("y", "f")}
	case "rownums_new":
		return []QFrame{f.WithRowNums("num")}
	case "eval_new":
		return []QFrame{f.Eval("ev", Expr("+", types.ColumnName("a"), c))}
	case "apply_new":
		return []QFrame{f.Apply(Instruction{Fn: func(x int) int { return vx.UFInt("g", x) }, DstCol: "ap", SrcCol1: "a"})}
	case "aggregate_nokey":
		return []QFrame{f.GroupBy().Aggregate(Aggregation{Fn: "sum", Column: "a"}, Aggregation{Fn: "max", Column: "f"})}
	case "qframes_aggregate":
		// group frames handed out earlier must survive a later Aggregate on the same Grouper
		g := f.GroupBy(groupby.Columns("c"))
		qs, _ := g.QFrames()
		var before []c01snap
		for _, q := range qs {
			before = append(before, c01observe(q))
		}
		r := g.Aggregate(Aggregation{Fn: "sum", Column: "a"}, Aggregation{Fn: func(xs []int) int { return vx.UFInt("agg", len(xs)) }, Column: "a2"})
		for k, q := range qs {
			c01same(before[k], c01observe(q), "group frame after Aggregate")
		}
		return append(qs, r)
	case "copy_over":
		return []QFrame{f.Copy("a2", "f")}
	case "apply_fn1":
		return []QFrame{f.Apply(Instruction{Fn: func(x int) int { return vx.UFInt("g", x) }, DstCol: "a", SrcCol1: "a"})}
	case "apply_fn2":
		return []QFrame{f.Apply(Instruction{Fn: func(x, y int) int { return vx.UFInt("g2", x, y) }, DstCol: "a2", SrcCol1: "a", SrcCol2: "a2"})}
	case "apply_const":
		return []QFrame{f.Apply(Instruction{Fn: c, DstCol: "a"})}
	case "apply_upper":
		return []QFrame{f.Apply(Instruction{Fn: "ToUpper", DstCol: "s", SrcCol1: "s"})}
	case "filtered_apply":
		return []QFrame{f.FilteredApply(Filter{Column: "a", Comparator: ">", Arg: c}, Instruction{Fn: func(x int) int { return vx.UFInt("g", x) }, DstCol: "a", SrcCol1: "a"})}
	case "eval":
		return []QFrame{f.Eval("a", Expr("-", c, types.ColumnName("a"), types.ColumnName("a2")))}
	case "rownums":
		return []QFrame{f.WithRowNums("a")}
	case "distinct":
		return []QFrame{f.Distinct(groupby.Columns("c"))}
	case "aggregate":
		return []QFrame{f.GroupBy(groupby.Columns("c")).Aggregate(Aggregation{Fn: "sum", Column: "a"}, Aggregation{Fn: "max", Column: "f"})}
	case "qframes":
		qs, _ := f.GroupBy(groupby.Columns("c")).QFrames()
		return qs
	case "views":
		_ = f.MustIntView("a").Slice()
		_ = f.MustStringView("s").Slice()
		_ = f.MustEnumView("e").Slice()
		return nil
	case "tocsv":
		vx.ModelCSVWriter()
		f.ToCSV(&vxBuf{})
		return nil
	case "tojson":
		f.ToJSON(&vxBuf{})
		return nil
	case "string":
		_ = f.String()
		return nil
	case "x_inplace_swap": // deliberately wrong (false twin): mutates the shared index
		f.index[0], f.index[1] = f.index[1], f.index[0]
		return nil
	case "x_append_spare": // deliberately wrong (false twin): appends into spare capacity of a shared index
		_ = append(f.index, 0)
		return nil
	case "filter_promote": // int column compared with a float column (temporary promotion)
		return []QFrame{f.Filter(Filter{Column: "a", Comparator: "<", Arg: types.ColumnName("f")}), f.Filter(Filter{Column: "f", Comparator: ">=", Arg: types.ColumnName("a2")})}
	case "distinct_float":
		return []QFrame{f.Distinct(groupby.Columns("f")), f.Distinct(groupby.Columns("f"), groupby.Null(true))}
	case "groupby_float":
		return []QFrame{f.GroupBy(groupby.Columns("f"), groupby.Null(true)).Aggregate(Aggregation{Fn: "sum", Column: "a"})}
	case "upper_enum": // string functions of the function package on an enum column (value table shared by all frames)
		return []QFrame{f.Eval("u", Expr("upper", types.ColumnName("e"))), f.Apply(Instruction{Fn: function.UpperS, DstCol: "e", SrcCol1: "e"}), f.Eval("s", Expr("upper", types.ColumnName("s")))}
	case "filter_and_all": // And whose first member keeps every row (a2 shares a's storage) and whose second drops some
		return []QFrame{f.Filter(And(Filter{Column: "a", Comparator: "=", Arg: types.ColumnName("a2")}, Filter{Column: "a", Comparator: ">", Arg: c})),
			f.Filter(And(Filter{Column: "a2", Comparator: "<=", Arg: types.ColumnName("a")}, Filter{Column: "s", Comparator: "isnotnull"}, Filter{Column: "a", Comparator: "<", Arg: c}))}
	case "aggregate_mutating": // a user aggregation may reorder the slice it is given (e.g. a sorting median)
		mut := func(xs []int) int {
			if len(xs) > 1 {
				xs[0], xs[len(xs)-1] = xs[len(xs)-1], xs[0]
			}
			return xs[0]
		}
		mutf := func(xs []float64) float64 {
			if len(xs) > 1 {
				xs[0], xs[1] = xs[1], xs[0]
			}
			return xs[0]
		}
		h := f.Slice(1, f.Len()) // rows that are adjacent in the column storage (index 0,1,..)
		return []QFrame{f.GroupBy().Aggregate(Aggregation{Fn: mut, Column: "a"}), h.GroupBy().Aggregate(Aggregation{Fn: mut, Column: "a"}, Aggregation{Fn: mutf, Column: "f"}),
			f.Sort(Order{Column: "a"}).GroupBy(groupby.Columns("c")).Aggregate(Aggregation{Fn: mut, Column: "a2"})}
	case "apply_selfcopy_then": // a first instruction that is a no-op must not make the later ones work in place
		return []QFrame{f.Apply(Instruction{Fn: types.ColumnName("a"), DstCol: "a"}, Instruction{Fn: c, DstCol: "a"}, Instruction{Fn: func(x int) int { return vx.UFInt("g", x) }, DstCol: "nw", SrcCol1: "a2"})}
	case "filter_ilike":
		return []QFrame{f.Filter(Filter{Column: "s", Comparator: "ilike", Arg: "y%"}), f.Filter(Filter{Column: "e", Comparator: "ilike", Arg: "%B"})}
	case "filter_like_regex":
		return []QFrame{f.Filter(Filter{Column: "s", Comparator: "like", Arg: "Y."}), f.Filter(Filter{Column: "s", Comparator: "ilike", Arg: "Y."})}
	case "eval_ctx":
		ctx := eval.NewDefaultCtx()
		ctx.SetFunc("twice", func(x int) int { return vx.UFInt("tw", x) })
		return []QFrame{f.Eval("tw", Expr("twice", types.ColumnName("a")), eval.EvalContext(ctx))}
	case "tosql":
		vxsql.Reset()
		f.ToSQL(vxsql.Tx(), qsql.Table("t"), qsql.SQLite())
		f.ToSQL(vxsql.Tx(), qsql.Table("t"), qsql.Postgres())
		return nil
	case "equals":
		f.Equals(g)
		g.Equals(f)
		return nil
	}
	panic("op " + op)
}

func VX_C01_persist() {
	n, P := vx.ParamInt("n"), vx.ParamInt("P")
	ops := strings.Split(vx.ParamStr("ops"), ",")
	names := []string{"a", "f", "c", "s", "e"}
	// numeric cells symbolic (any change of a cell is then observable for some value);
	// string and enum cells concrete: their content does not matter for persistence.
	sc := vxCol{typ: "string", s: make([]string, P), null: make([]bool, P)}
	ec := vxCol{typ: "enum", s: make([]string, P), null: make([]bool, P)}
	for k := 0; k < P; k++ {
		sc.s[k] = []string{"x", "", "Yy", "qABCDE"}[k%4] // total length > P: the blob is grown by append and keeps spare capacity
		sc.null[k] = k == 1
		ec.s[k] = []string{"b", "c", "", "a"}[k%4]
		ec.null[k] = k%4 == 2
	}
	bc := vxCol{typ: "bool", b: make([]bool, P)}
	for k := range bc.b {
		bc.b[k] = k%2 == 0 // concrete: grouping by c is deterministic here
	}
	fc := vxMakeColLite("float", P)
	if strings.Contains(vx.ParamStr("ops"), "_float") {
		// grouping by a symbolic float key forks on every row (NaN, zero, hash slot); the cells that
		// matter for persistence are the ones an operation might canonicalise: -0, NaN payloads
		fc = vxCol{typ: "float", f: make([]float64, P)}
		for k := range fc.f {
			fc.f[k] = []float64{math.Copysign(0, -1), math.Float64frombits(0x7ff8000000000123), 0, 1.5, math.Float64frombits(0xfff8000000000001)}[k%5]
		}
	}
	cols := []vxCol{vxMakeColLite("int", P), fc, bc, sc, ec}
	vx.ConstrainHash(3, 0)
	base := vxFrame(names, cols, nil).Copy("a2", "a") // column storage shared between a and a2
	ix := make([]uint32, P) // a fixed non-identity arrangement: 2,0,1,...
	for k := range ix {
		ix[k] = uint32((k + P - 1) % P)
	}
	f0 := base.withIndex(ix).Slice(0, n) // index with spare capacity behind it
	family := []QFrame{base, f0}
	snaps := []c01snap{c01observe(base), c01observe(f0)}
	strict := vx.ParamBool("strict")
	// a Grouper obtained earlier is part of the family: its groups must stay what they were
	g0 := f0.GroupBy(groupby.Columns("c"))
	g0frames, _ := g0.QFrames()
	var g0snaps []c01snap
	for _, q := range g0frames {
		g0snaps = append(g0snaps, c01observe(q))
	}
	for step, op := range ops {
		target := family[len(family)-1]
		if vx.HasParam("on0") && step > 0 {
			target = f0 // second step applied to the shared ancestor, not to the newest member
		}
		// "<op>@tail" / "<op>@base": the operation is applied to a sibling view of the same storage with
		// another row set / row order (what one frame appends to shared storage another may have used already)
		if strings.HasSuffix(op, "@tail") {
			op = strings.TrimSuffix(op, "@tail")
			target = f0.Slice(1, f0.Len())
		} else if strings.HasSuffix(op, "@base") {
			op = strings.TrimSuffix(op, "@base")
			target = base
		}
		fam := make([]interface{}, len(family))
		for k := range family {
			fam[k] = family[k]
		}
		fam = append(fam, g0)
		vx.Freeze("family", fam...)
		if strict {
			vx.FreezeGlobals()
		}
		w0, s0 := vx.FrozenWrites(), vx.SharedWrites()
		var res []QFrame
		if op == "grouper_aggregate" {
			res = []QFrame{g0.Aggregate(Aggregation{Fn: "sum", Column: "a"}), g0.Aggregate(Aggregation{Fn: "max", Column: "f"})}
		} else {
			res = c01op(op, target, f0)
		}
		w1, s1 := vx.FrozenWrites(), vx.SharedWrites()
		vx.Thaw()
		if strict {
			vx.Check(w1 == w0, "monitor: no store into memory that existed before the call ("+op+")")
			vx.Check(s1 == s0, "monitor: no mutation of package-level or other process-wide state ("+op+")")
		}
		now, _ := g0.QFrames()
		vx.Check(len(now) == len(g0frames), "earlier Grouper: same number of groups")
		for k := range now {
			if k < len(g0snaps) {
				c01same(g0snaps[k], c01observe(now[k]), "earlier Grouper's groups after "+op)
			}
		}
		for k := range family {
			c01same(snaps[k], c01observe(family[k]), "member "+string(rune('0'+k))+" after "+op)
		}
		for _, r := range res {
			vx.Assume(r.Err == nil)
			family = append(family, r)
			snaps = append(snaps, c01observe(r))
		}
	}
	vx.Reach("end")
}
