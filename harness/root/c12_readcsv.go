package qframe

// C12-B: the ReadCSV layer above the scanner: options and type inference on
// documents with a fixed layout and symbolic cells over a small alphabet
// (every content is decided by the real strconv after forking).

import (
	"bytes"
	"math"
	"strconv"
	"strings"

	"github.com/tobgu/qframe/config/csv"
	"github.com/tobgu/qframe/internal/vx"
	"github.com/tobgu/qframe/types"
)

// c12cell: a cell of 0..1 bytes over {'1','7','t','x','.'}, or one of "-0", "1.5".
func c12cell() string {
	if vx.Bool() {
		return ""
	}
	if vx.Bool() {
		// spellings whose value depends on the type they are read as
		if vx.Bool() {
			return "-0"
		}
		if vx.Bool() {
			return "+1" // explicit plus sign: an int (and a float) for strconv
		}
		return "1.5"
	}
	b := vx.Byte()
	vx.Assume(vx.Or(vx.Or(b == '1', b == '7'), vx.Or(b == 't', vx.Or(b == 'x', b == '.'))))
	// concretise: inference is decided by strconv on concrete text
	for _, c := range []byte{'1', '7', 't', 'x', '.'} {
		if b == c {
			return string([]byte{c})
		}
	}
	return "x"
}

// c12wide: spellings at the limits of the numeric types and near-numbers.
var c12wideCells = []string{"9223372036854775807", "9223372036854775808", "-9223372036854775808", "-9223372036854775809",
	"99999999999999999999", "0000000000000000000001", "1e3", "0x10", "1_000", "Inf", "nan", "TRUE", "1.", "-", "+", " 1", "1E400", "4.9e-324", "0.1"}

func c12wide() string {
	k := vx.IntN(0, len(c12wideCells)-1)
	for j := range c12wideCells {
		if k == j {
			return c12wideCells[j]
		}
	}
	return ""
}

func c12allParse(cells []string, f func(string) bool) bool {
	for _, c := range cells {
		if !f(c) {
			return false
		}
	}
	return true
}

// VX_C12_infer: untyped columns become int, else float (empty = NaN), else bool, else string.
func VX_C12_infer() {
	rows := vx.ParamInt("rows")
	emptyNull := vx.ParamBool("emptynull")
	var a, b []string
	doc := "a,b\n"
	for r := 0; r < rows; r++ {
		x, y := "", ""
		if vx.HasParam("wide") {
			// numeric limits: one such cell per row next to an ordinary cell in the same column
			x, y = c12wide(), "1"
			if r > 0 {
				x, y = "7", c12wide()
			}
		} else {
			x, y = c12cell(), c12cell()
		}
		a, b = append(a, x), append(b, y)
		doc += x + "," + y + "\n"
	}
	f := ReadCSV(strings.NewReader(doc), csv.EmptyNull(emptyNull))
	vx.Check(f.Err == nil, "well-formed document: no error")
	if f.Err != nil {
		return
	}
	vx.Check(f.Len() == rows, "one row per record")
	names := f.ColumnNames()
	vx.Check(len(names) == 2 && names[0] == "a" && names[1] == "b", "header")
	for k, cells := range [][]string{a, b} {
		name := []string{"a", "b"}[k]
		isInt := c12allParse(cells, func(s string) bool { _, e := strconv.Atoi(s); return e == nil })
		isFloat := c12allParse(cells, func(s string) bool { _, e := strconv.ParseFloat(s, 64); return s == "" || e == nil })
		isBool := c12allParse(cells, func(s string) bool { _, e := strconv.ParseBool(s); return e == nil })
		typ := f.ColumnTypeMap()[name]
		switch {
		case isInt:
			vx.Check(typ == types.Int, "all cells parse as int: int column")
			v, err := f.IntView(name)
			if err == nil {
				for r, s := range cells {
					want, _ := strconv.Atoi(s)
					vx.Check(v.ItemAt(r) == want, "int cell value")
				}
			}
		case isFloat:
			vx.Check(typ == types.Float, "all non-empty cells parse as float: float column")
			v, err := f.FloatView(name)
			if err == nil {
				for r, s := range cells {
					if s == "" {
						vx.Check(v.ItemAt(r) != v.ItemAt(r), "empty float cell is NaN")
					} else {
						want, _ := strconv.ParseFloat(s, 64)
						vx.Check(math.Float64bits(v.ItemAt(r)) == math.Float64bits(want), "float cell value (bit-identical)")
					}
				}
			}
		case isBool:
			vx.Check(typ == types.Bool, "all cells parse as bool: bool column")
		default:
			vx.Check(typ == types.String, "otherwise a string column")
			v, err := f.StringView(name)
			if err == nil {
				for r, s := range cells {
					p := v.ItemAt(r)
					if s == "" && emptyNull {
						vx.Check(p == nil, "EmptyNull: empty cell is null")
					} else {
						vx.Check(p != nil && *p == s, "string cell value")
					}
				}
			}
		}
	}
	vx.Reach("end")
}

// VX_C12_options: Headers, IgnoreEmptyLines, RenameDuplicateColumns, MissingColumnNameAlias,
// Types/EnumValues, Delimiter, RowCountHint on concrete layouts with symbolic string cells.
func VX_C12_options() {
	c1, c2 := vx.Str(1), vx.Str(1)
	for _, c := range []string{c1, c2} {
		vx.Assume(vx.And(vx.And(c[0] != ',', c[0] != ';'), vx.And(vx.And(c[0] != '"', c[0] != '\n'), c[0] != '\r')))
	}
	str := map[string]string{"a": "string", "b": "string", "a0": "string", "m": "string", "": "string"}
	switch vx.ParamStr("case") {
	case "headers":
		f := ReadCSV(strings.NewReader(c1+","+c2+"\n"), csv.Headers([]string{"a", "b"}), csv.Types(str))
		vx.Check(f.Err == nil && f.Len() == 1, "Headers: first line is data")
		if f.Err == nil && f.Len() == 1 {
			vx.Check(*f.MustStringView("a").ItemAt(0) == c1 && *f.MustStringView("b").ItemAt(0) == c2, "Headers: cells")
		}
	case "ignore_empty":
		doc := "a,b\n\n" + c1 + "," + c2 + "\n\n"
		f := ReadCSV(strings.NewReader(doc), csv.IgnoreEmptyLines(true), csv.Types(str))
		vx.Check(f.Err == nil && f.Len() == 1, "IgnoreEmptyLines: empty lines skipped")
		g := ReadCSV(strings.NewReader(doc), csv.Types(str))
		vx.Check(g.Err != nil, "without IgnoreEmptyLines an empty line in a 2-column file is a column count error")
	case "empty_kept_single_col":
		f := ReadCSV(strings.NewReader("a\n"+c1+"\n\n"+c2+"\n"), csv.Types(str))
		vx.Check(f.Err == nil && f.Len() == 3, "single column: empty line is an empty cell")
	case "rename_dup":
		f := ReadCSV(strings.NewReader("a,a\n"+c1+","+c2+"\n"), csv.RenameDuplicateColumns(true), csv.Types(str))
		vx.Check(f.Err == nil, "RenameDuplicateColumns: no error")
		if f.Err == nil {
			n := f.ColumnNames()
			vx.Check(len(n) == 2 && n[0] == "a" && n[1] == "a0", "duplicate renamed with a counter")
			vx.Check(*f.MustStringView("a").ItemAt(0) == c1 && *f.MustStringView("a0").ItemAt(0) == c2, "cells stay with their columns")
		}
		g := ReadCSV(strings.NewReader("a,a\n"+c1+","+c2+"\n"), csv.Types(str))
		vx.Check(g.Err != nil, "duplicate column names are an error by default")
	case "ignore_empty_single_col": // with one column an empty line has the right field count, it is skipped all the same
		f := ReadCSV(strings.NewReader("a\n"+c1+"\n\n"+c2+"\n\n"), csv.IgnoreEmptyLines(true), csv.Types(str))
		vx.Check(f.Err == nil && f.Len() == 2, "IgnoreEmptyLines: empty lines skipped in a single-column document")
		g := ReadCSV(strings.NewReader("a\n1\n\n2\n"), csv.IgnoreEmptyLines(true))
		vx.Check(g.Err == nil && g.Len() == 2 && g.ColumnTypeMap()["a"] == types.Int, "IgnoreEmptyLines: the int column stays an int column")
	case "rename_dup_later": // a later column already has the name a generated candidate would get
		f := ReadCSV(strings.NewReader("a,a,a0\n"+c1+","+c2+",z\n"), csv.RenameDuplicateColumns(true), csv.Types(map[string]string{"a": "string", "a0": "string", "a1": "string", "a00": "string"}))
		vx.Check(f.Err == nil, "RenameDuplicateColumns: no error")
		if f.Err == nil {
			n := f.ColumnNames()
			vx.Check(len(n) == 3 && n[0] == "a" && n[2] == "a0" && n[1] != "a" && n[1] != "a0", "the duplicate gets a fresh name, names that are unique in the document stay")
			if len(n) == 3 && f.Contains("a0") {
				vx.Check(*f.MustStringView("a0").ItemAt(0) == "z" && *f.MustStringView(n[1]).ItemAt(0) == c2 && *f.MustStringView("a").ItemAt(0) == c1, "cells stay with their columns")
			}
		}
	case "enum_map_reuse": // the caller's EnumValues map may be used for several reads
		vals := map[string][]string{"a": {"b", "c"}}
		typ := csv.Types(map[string]string{"a": "enum"})
		f := ReadCSV(strings.NewReader("a\nb\n"), typ, csv.EnumValues(vals))
		g := ReadCSV(strings.NewReader("a\nzz\n"), typ, csv.EnumValues(vals))
		h := ReadCSV(strings.NewReader("a\n"+c1+"\n"), typ, csv.EnumValues(vals))
		vx.Check(f.Err == nil, "first read with declared values")
		vx.Check(g.Err != nil, "a later read with the same declared values still rejects an undeclared cell")
		vx.Check((h.Err == nil) == (c1 == "b" || c1 == "c"), "declared values accept exactly the declared cells")
		vx.Check(len(vals) == 1 && len(vals["a"]) == 2 && vals["a"][0] == "b" && vals["a"][1] == "c", "the caller's map is not modified")
	case "enum_option_reuse": // one option value (not only one map) used for several reads
		vals := map[string][]string{"a": {"c", "b"}}
		typ, ev := csv.Types(map[string]string{"a": "enum"}), csv.EnumValues(vals)
		f := ReadCSV(strings.NewReader("a\nb\nc\n"), typ, ev)
		g := ReadCSV(strings.NewReader("a\nzz\n"), typ, ev)
		h := ReadCSV(strings.NewReader("a\n"+c1+"\nb\nc\n"), typ, ev)
		vx.Check(f.Err == nil, "first read with declared values")
		vx.Check(g.Err != nil, "a later read through the same option value still rejects an undeclared cell")
		vx.Check((h.Err == nil) == (c1 == "b" || c1 == "c"), "the same option value accepts exactly the declared cells")
		if h.Err == nil {
			// declared order c < b also in the later read
			srt := h.Sort(Order{Column: "a"})
			v := srt.MustEnumView("a")
			vx.Check(*v.ItemAt(0) == "c" && *v.ItemAt(2) == "b", "declared order is kept by a later read through the same option value")
		}
		k := ReadCSV(strings.NewReader("a,b\nb,1\n"), csv.Types(map[string]string{"a": "enum"}), csv.EnumValues(map[string][]string{"b": {"1"}}))
		k2 := ReadCSV(strings.NewReader("a,b\nb,1\n"), typ, csv.EnumValues(map[string][]string{"a": {"b"}, "b": {"1"}}))
		vx.Check(k.Err != nil && k2.Err != nil, "enum values for a column that is not an enum column are rejected")
	case "missing_alias":
		f := ReadCSV(strings.NewReader("a,\n"+c1+","+c2+"\n"), csv.MissingColumnNameAlias("m"), csv.Types(str))
		vx.Check(f.Err == nil, "MissingColumnNameAlias: no error")
		if f.Err == nil {
			n := f.ColumnNames()
			vx.Check(len(n) == 2 && n[1] == "m", "empty name replaced by the alias")
			vx.Check(*f.MustStringView("m").ItemAt(0) == c2, "cells stay with their columns")
		}
	case "delimiter":
		f := ReadCSV(strings.NewReader("a;b\n"+c1+";"+c2+"\n"), csv.Delimiter(';'), csv.Types(str))
		vx.Check(f.Err == nil && f.Len() == 1, "Delimiter")
		if f.Err == nil && f.Len() == 1 {
			vx.Check(*f.MustStringView("a").ItemAt(0) == c1 && *f.MustStringView("b").ItemAt(0) == c2, "Delimiter: cells")
		}
	case "enum_declared":
		e := vxEnumVals[vxConc(vx.IntN(0, 2), 3)]
		f := ReadCSV(strings.NewReader("a\n"+e+"\n"), csv.Types(map[string]string{"a": "enum"}), csv.EnumValues(map[string][]string{"a": vxEnumVals}))
		vx.Check(f.Err == nil, "declared enum value accepted")
		if f.Err == nil {
			vx.Check(*f.MustEnumView("a").ItemAt(0) == e, "enum cell")
		}
		g := ReadCSV(strings.NewReader("a\nzz\n"), csv.Types(map[string]string{"a": "enum"}), csv.EnumValues(map[string][]string{"a": vxEnumVals}))
		vx.Check(g.Err != nil, "undeclared enum value rejected")
		h := ReadCSV(strings.NewReader("a\nb\n"), csv.Types(map[string]string{"a": "string"}), csv.EnumValues(map[string][]string{"a": vxEnumVals}))
		vx.Check(h.Err != nil, "enum values for a non-enum column rejected")
	case "typed_failure":
		f := ReadCSV(strings.NewReader("a\nx\n"), csv.Types(map[string]string{"a": "int"}))
		g := ReadCSV(strings.NewReader("a\nx\n"), csv.Types(map[string]string{"a": "float"}))
		h := ReadCSV(strings.NewReader("a\nx\n"), csv.Types(map[string]string{"a": "bool"}))
		vx.Check(f.Err != nil && g.Err != nil && h.Err != nil, "cells that do not parse as the declared type are an error")
	case "column_count":
		f := ReadCSV(strings.NewReader("a,b\n"+c1+"\n"), csv.Types(str))
		vx.Check(f.Err != nil, "record with too few fields is an error")
		g := ReadCSV(strings.NewReader("a\n"+c1+","+c2+"\n"), csv.Types(str))
		vx.Check(g.Err != nil, "record with too many fields is an error")
	case "rowcount_hint":
		var sb bytes.Buffer
		sb.WriteString("a,b\n")
		for r := 0; r < 1001; r++ {
			sb.WriteString("1,x\n")
		}
		sb.WriteString(c1 + "," + c2 + "\n")
		f := ReadCSV(bytes.NewReader(sb.Bytes()), csv.RowCountHint(2001), csv.Types(map[string]string{"a": "string", "b": "string"}))
		vx.Check(f.Err == nil && f.Len() == 1002, "RowCountHint: all rows present after the resize at row 1000")
		if f.Err == nil && f.Len() == 1002 {
			vx.Check(*f.MustStringView("a").ItemAt(1001) == c1 && *f.MustStringView("b").ItemAt(1001) == c2, "cells after the resize")
			vx.Check(*f.MustStringView("a").ItemAt(999) == "1" && *f.MustStringView("b").ItemAt(1000) == "x", "cells around the resize")
		}
	default:
		panic("case")
	}
	vx.Reach("end")
}
