package qframe

// C03-A: QFrame.Sort end to end: permutation + adjacent rows ordered under the
// statement's comparator (natural order, null smallest, NullLast, Reverse).

import (
	"math"
	"strings"

	"github.com/tobgu/qframe/function"
	"github.com/tobgu/qframe/internal/vx"
	"github.com/tobgu/qframe/types"
)

// c03cmp returns -1/0/+1 for physical rows p,q of column c (fork free).
func c03cmp(c vxCol, p, q int, reverse, nullLast bool) int {
	var lt, gt, xn, yn bool
	switch c.typ {
	case "int":
		lt, gt = c.i[p] < c.i[q], c.i[p] > c.i[q]
	case "float":
		x, y := c.f[p], c.f[q]
		lt, gt, xn, yn = x < y, x > y, math.IsNaN(x), math.IsNaN(y)
	case "bool":
		lt, gt = vx.And(vx.Not(c.b[p]), c.b[q]), vx.And(c.b[p], vx.Not(c.b[q]))
	case "string":
		lt, gt, xn, yn = c.s[p] < c.s[q], c.s[p] > c.s[q], c.null[p], c.null[q]
	case "enum":
		rp, rq := vxEnumRank(c.s[p]), vxEnumRank(c.s[q])
		lt, gt, xn, yn = rp < rq, rp > rq, c.null[p], c.null[q]
	}
	natural := vx.IteInt(lt, -1, vx.IteInt(gt, 1, 0))
	nullLess := -1
	if nullLast {
		nullLess = 1
	}
	r := vx.IteInt(vx.And(xn, yn), 0, vx.IteInt(xn, nullLess, vx.IteInt(yn, -nullLess, natural)))
	if reverse {
		r = -r
	}
	return r
}

func VX_C03_sort() {
	types := strings.Split(vx.ParamStr("types"), ",")
	flags := vx.ParamStr("flags") // per key two chars: r|- and n|-
	n, P := vx.ParamInt("n"), vx.ParamInt("P")
	names := []string{"k1", "k2"}[:len(types)]
	cols := make([]vxCol, len(types))
	conc := false
	for k, t := range types {
		cols[k] = vxMakeColLite(t, P)
		if t == "string" && vx.HasParam("empty") {
			cols[k] = vxMakeCol("string", P, 1) // cells of 0..1 bytes: empty strings take no room in the column storage
		}
		if t == "string" || t == "enum" {
			conc = true
		}
	}
	var ix []uint32
	if conc {
		ix = vxConcIndex(n, P)
	} else {
		ix = vxIndex(n, P)
	}
	x := vxMakeCol("int", P, 0)
	f := vxFrame(append(append([]string{}, names...), "x"), append(append([]vxCol{}, cols...), x), ix)
	orders := make([]Order, len(types))
	for k := range types {
		orders[k] = Order{Column: names[k], Reverse: flags[2*k] == 'r', NullLast: flags[2*k+1] == 'n'}
	}
	given := orders
	if vx.HasParam("repeat") {
		// the first key again at the end with the opposite flags: the first occurrence decides
		again := orders[0]
		again.Reverse, again.NullLast = !again.Reverse, !again.NullLast
		given = append(append([]Order{}, orders...), again)
	}
	r := f.Sort(given...)
	vx.Check(r.Err == nil, "no error")
	out := r.index
	vx.Check(len(out) == n, "all rows returned")
	for row := 0; row < n; row++ {
		cnt := 0
		for j := range out {
			cnt += vx.B2I(out[j] == ix[row])
		}
		vx.Check(cnt == 1, "each row exactly once")
	}
	xv := r.MustIntView("x")
	for j := 0; j < len(out); j++ {
		vx.Check(xv.ItemAt(j) == x.i[out[j]], "rows stay whole")
	}
	for j := 0; j+1 < len(out); j++ {
		p, q := int(out[j]), int(out[j+1])
		if conc {
			p, q = vxConc(p, P), vxConc(q, P)
		}
		res := 0
		for k := len(types) - 1; k >= 0; k-- {
			c := c03cmp(cols[k], p, q, orders[k].Reverse, orders[k].NullLast)
			res = vx.IteInt(c != 0, c, res)
		}
		vx.Check(res <= 0, "consecutive rows never decrease")
	}
	// the input frame still shows its rows in the old order
	for row := 0; row < n; row++ {
		vx.Check(f.index[row] == ix[row], "input frame untouched")
	}
	vx.Reach("end")
}

// VX_C03_resort: Sort on frames with a history: sorted before, then the key column replaced
// (Apply / Copy / Eval onto the key's name), or filtered, or sorted again in another direction.
func VX_C03_resort() {
	n, P := vx.ParamInt("n"), vx.ParamInt("P")
	k, y := vxMakeCol("int", P, 0), vxMakeCol("int", P, 0)
	ix := make([]uint32, n) // a fixed non-identity arrangement
	for j := range ix {
		ix[j] = uint32((j + P - 1) % P)
	}
	f := vxFrame([]string{"k", "y"}, []vxCol{k, y}, ix)
	first := []Order{{Column: "k"}}
	if vx.ParamStr("first") == "k,y" {
		first = []Order{{Column: "k"}, {Column: "y"}}
	}
	s1 := f.Sort(first...)
	vx.Check(s1.Err == nil, "first Sort: no error")
	nk := make([]int, P) // the key column's content after the intermediate step, per physical row
	copy(nk, k.i)
	g := s1
	second := []Order{{Column: "k"}}
	switch vx.ParamStr("via") {
	case "apply":
		g = s1.Apply(Instruction{Fn: func(x int) int { return x ^ 5 }, DstCol: "k", SrcCol1: "k"})
		for p := range nk {
			nk[p] = k.i[p] ^ 5
		}
	case "copy":
		g = s1.Copy("k", "y")
		copy(nk, y.i)
	case "eval":
		g = s1.Eval("k", Expr("abs", types.ColumnName("k")))
		for p := range nk {
			nk[p] = function.AbsI(k.i[p])
		}
	case "filter":
		g = s1.Filter(Filter{Column: "y", Comparator: ">", Arg: vx.Int()})
	case "reverse":
		second = []Order{{Column: "k", Reverse: true}}
	case "same":
	default:
		panic("via")
	}
	vx.Check(g.Err == nil, "intermediate step: no error")
	rows := append([]uint32{}, g.index...)
	r := g.Sort(second...)
	vx.Check(r.Err == nil, "second Sort: no error")
	out := r.index
	vx.Check(len(out) == len(rows), "all rows returned")
	for _, id := range rows {
		cnt := 0
		for j := range out {
			cnt += vx.B2I(out[j] == id)
		}
		vx.Check(cnt == 1, "each row exactly once")
	}
	kv := r.MustIntView("k")
	for j := 0; j < len(out); j++ {
		vx.Check(kv.ItemAt(j) == nk[out[j]], "key cells are the replaced values")
	}
	for j := 0; j+1 < len(out); j++ {
		a, b := nk[out[j]], nk[out[j+1]]
		if second[0].Reverse {
			a, b = b, a
		}
		vx.Check(a <= b, "consecutive rows never decrease (on the key as it is now)")
	}
	vx.Reach("end")
}
