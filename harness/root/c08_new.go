package qframe

// C08: New reproduces its input or rejects it; Select/Drop/Slice/Copy project exactly.

import (
	"strings"

	"github.com/tobgu/qframe/config/newqf"
	"github.com/tobgu/qframe/internal/vx"
)

// vxColLen builds a column with a symbolic (then concretised) length 0..L.
func vxColLen(typ string, L int) vxCol {
	n := vxConc(vx.IntN(0, L), L+1)
	return vxMakeCol(typ, n, 1)
}

// VX_C08_new: New over 1..3 columns with independent lengths and a config variant.
func VX_C08_new() {
	types := strings.Split(vx.ParamStr("types"), ",")
	L := vx.ParamInt("L")
	cfg := vx.ParamStr("cfg")
	all := []string{"a", "b", "c"}
	names := all[:len(types)]
	cols := make([]vxCol, len(types))
	data := map[string]interface{}{}
	enums := map[string][]string{}
	sameLen := true
	sdata := "ptr"
	if vx.HasParam("sdata") {
		sdata = vx.ParamStr("sdata")
	}
	for k, t := range types {
		cols[k] = vxColLen(t, L)
		data[names[k]] = cols[k].data()
		if t == "string" || t == "enum" {
			switch sdata {
			case "shared":
				// []*string whose cells may share one pointer (the solver picks the aliasing pattern;
				// aliased cells hold the same string by construction)
				c := &cols[k]
				ptrs := make([]*string, c.len())
				for r := range ptrs {
					if c.null[r] {
						continue
					}
					a := vxConc(vx.IntN(0, r), r+1)
					if a < r && ptrs[a] != nil {
						ptrs[r] = ptrs[a]
						c.s[r] = c.s[a]
					} else {
						v := c.s[r]
						ptrs[r] = &v
					}
				}
				data[names[k]] = ptrs
			case "plain":
				// []string: no nulls
				c := &cols[k]
				for r := range c.null {
					vx.Assume(!c.null[r])
				}
				data[names[k]] = append([]string{}, c.s...)
			}
		}
		if t == "enum" {
			enums[names[k]] = vxEnumVals
		}
		if cols[k].len() != cols[0].len() {
			sameLen = false
		}
	}
	valid := sameLen
	order := names
	var fns []newqf.ConfigFunc
	switch cfg {
	case "none":
	case "order_rev":
		order = make([]string, len(names))
		for k := range names {
			order[k] = names[len(names)-1-k]
		}
		fns = append(fns, newqf.ColumnOrder(order...))
	case "order_short":
		fns = append(fns, newqf.ColumnOrder(names[:len(names)-1]...))
		valid = valid && len(names) == 1 // an empty order means "default"
	case "order_unknown":
		o := append([]string{}, names...)
		o[0] = "zz"
		fns = append(fns, newqf.ColumnOrder(o...))
		valid = false
	case "enum_unknown":
		enums["nosuch"] = []string{"x"}
		valid = false
	case "enum_nonstring":
		// an Enums entry for a column that does not hold strings
		valid = false
		found := false
		for k, t := range types {
			if t != "string" && t != "enum" && !found {
				enums[names[k]] = []string{"x"}
				found = true
			}
		}
		if !found {
			vx.Assume(false)
		}
	case "badtype":
		data[names[0]] = []int32{1}
		valid = false
	default:
		panic("cfg " + cfg)
	}
	if len(enums) > 0 {
		fns = append(fns, newqf.Enums(enums))
	}
	f := New(data, fns...)
	if !valid {
		vx.Check(f.Err != nil, "invalid input is rejected")
		vx.Check(f.Len() == -1, "failed frame exposes no rows")
		vx.Reach("end-invalid")
		return
	}
	ocols := make([]vxCol, len(order))
	for k, n := range order {
		for j := range names {
			if names[j] == n {
				ocols[k] = cols[j]
			}
		}
	}
	vxCheckFrame(f, order, ocols, vxIota(cols[0].len()), "New")
	vx.Reach("end-valid")
}

// VX_C08_const: constant columns are repeated.
func VX_C08_const() {
	n := vxConc(vx.IntN(0, 2), 3)
	ci, cf, cb := vx.Int(), vx.Float64(), vx.Bool()
	cs, csNull := vxStrCell(2, true)
	var sp *string
	if !csNull {
		sp = &cs
	}
	f := New(map[string]interface{}{
		"i": ConstInt{Val: ci, Count: n}, "f": ConstFloat{Val: cf, Count: n},
		"b": ConstBool{Val: cb, Count: n}, "s": ConstString{Val: sp, Count: n},
		"e": ConstString{Val: sp, Count: n},
	}, newqf.Enums(map[string][]string{"e": nil}))
	vx.Check(f.Err == nil, "const: no error")
	vx.Check(f.Len() == n, "const: length")
	mk := func(t string) vxCol {
		c := vxCol{typ: t}
		for k := 0; k < n; k++ {
			switch t {
			case "int":
				c.i = append(c.i, ci)
			case "float":
				c.f = append(c.f, cf)
			case "bool":
				c.b = append(c.b, cb)
			default:
				c.s = append(c.s, cs)
				c.null = append(c.null, csNull)
			}
		}
		return c
	}
	vxCheckFrame(f, []string{"b", "e", "f", "i", "s"}, []vxCol{mk("bool"), mk("enum"), mk("float"), mk("int"), mk("string")}, vxIota(n), "const")
	vx.Reach("end")
}

// VX_C08_name: column name legality.
func VX_C08_name() {
	n := vx.ParamInt("len")
	name := vx.Str(n)
	f := New(map[string]interface{}{name: []int{1}})
	empty := n == 0
	dollar := n > 0 && name[0] == '$'
	quoted := n > 2 && ((name[0] == '\'' && name[n-1] == '\'') || (name[0] == '"' && name[n-1] == '"'))
	edgeQuote := n > 0 && (name[0] == '\'' || name[0] == '"' || name[n-1] == '\'' || name[n-1] == '"')
	if empty || dollar || quoted {
		vx.Check(f.Err != nil, "illegal name rejected")
	} else if !edgeQuote {
		vx.Check(f.Err == nil, "legal name accepted")
		vx.Check(len(f.ColumnNames()) == 1 && f.ColumnNames()[0] == name, "name kept")
	}
	vx.Reach("end")
}

// VX_C08_project: Select / Drop / Slice / Copy on a derived frame.
func VX_C08_project() {
	op := vx.ParamStr("op")
	n, P := vx.ParamInt("n"), vx.ParamInt("P")
	names := []string{"a", "b", "c", "d", "e"}
	cols := []vxCol{vxMakeColLite("int", P), vxMakeColLite("float", P), vxMakeColLite("bool", P), vxMakeColLite("string", P), vxMakeColLite("enum", P)}
	ix := vxConcIndex(n, P)
	f := vxFrame(names, cols, ix)
	switch op {
	case "select_perm":
		g := f.Select("d", "a", "e")
		vxCheckFrame(g, []string{"d", "a", "e"}, []vxCol{cols[3], cols[0], cols[4]}, ix, "Select")
		// the projected frame must behave like any other frame: replace a moved column
		h := g.Copy("a", "e")
		vxCheckFrame(h, []string{"d", "a", "e"}, []vxCol{cols[3], cols[4], cols[4]}, ix, "Select then Copy onto a moved column")
		h2 := g.Copy("d", "a")
		vxCheckFrame(h2, []string{"d", "a", "e"}, []vxCol{cols[0], cols[0], cols[4]}, ix, "Select then Copy onto the first column")
	case "select_unknown":
		g := f.Select("a", "nosuch")
		vx.Check(g.Err != nil && g.Len() == -1, "Select: unknown column rejected")
	case "drop":
		g := f.Drop("b", "d")
		vxCheckFrame(g, []string{"a", "c", "e"}, []vxCol{cols[0], cols[2], cols[4]}, ix, "Drop")
		h := g.Copy("c", "e")
		vxCheckFrame(h, []string{"a", "c", "e"}, []vxCol{cols[0], cols[4], cols[4]}, ix, "Drop then Copy onto a moved column")
		h2 := f.Drop("a").Copy("e", "b")
		vxCheckFrame(h2, []string{"b", "c", "d", "e"}, []vxCol{cols[1], cols[2], cols[3], cols[1]}, ix, "Drop first then Copy onto the last column")
	case "drop_dup": // names repeated or unknown: the number of names says nothing about what is left
		g := f.Drop("b", "b")
		vxCheckFrame(g, []string{"a", "c", "d", "e"}, []vxCol{cols[0], cols[2], cols[3], cols[4]}, ix, "Drop with a repeated name")
		h := f.Select("a", "b").Drop("a", "a")
		vxCheckFrame(h, []string{"b"}, []vxCol{cols[1]}, ix, "Drop with as many names as columns, one repeated")
		h2 := f.Select("a", "b").Drop("zz", "yy", "a")
		vxCheckFrame(h2, []string{"b"}, []vxCol{cols[1]}, ix, "Drop with unknown names")
		h3 := f.Select("a", "b").Drop("b", "a")
		vx.Check(h3.Err == nil && len(h3.ColumnNames()) == 0, "Drop of every column")
	case "copy_siblings": // frames derived from one parent by adding different columns are independent
		p := f.Copy("p", "a")
		s1 := p.Copy("x", "a")
		s2 := p.Copy("y", "b")
		vxCheckFrame(s1, append(append([]string{}, names...), "p", "x"), append(append([]vxCol{}, cols...), cols[0], cols[0]), ix, "first sibling after the second was derived")
		vxCheckFrame(s2, append(append([]string{}, names...), "p", "y"), append(append([]vxCol{}, cols...), cols[0], cols[1]), ix, "second sibling")
		vxCheckFrame(p, append(append([]string{}, names...), "p"), append(append([]vxCol{}, cols...), cols[0]), ix, "parent of the siblings")
	case "drop_none":
		g := f.Drop()
		vxCheckFrame(g, names, cols, ix, "Drop()")
	case "slice":
		a, b := vx.Int(), vx.Int()
		g := f.Slice(a, b)
		if a < 0 || a > b || b > n {
			vx.Check(g.Err != nil && g.Len() == -1, "Slice: bad bounds rejected")
			vx.Reach("slice-invalid")
		} else {
			ca, cb := vxConc(a, n+1), vxConc(b, n+1)
			vxCheckFrame(g, names, cols, ix[ca:cb], "Slice")
			vx.Reach("slice-valid")
		}
	case "copy_new":
		g := f.Copy("z", "d")
		vxCheckFrame(g, append(append([]string{}, names...), "z"), append(append([]vxCol{}, cols...), cols[3]), ix, "Copy new")
	case "copy_replace":
		g := f.Copy("b", "e")
		vxCheckFrame(g, names, []vxCol{cols[0], cols[4], cols[2], cols[3], cols[4]}, ix, "Copy replace")
	case "copy_self":
		g := f.Copy("a", "a")
		vxCheckFrame(g, names, cols, ix, "Copy self")
	case "copy_unknown":
		g := f.Copy("z", "nosuch")
		vx.Check(g.Err != nil && g.Len() == -1, "Copy: unknown source rejected")
		g2 := f.Copy("nosuch", "nosuch")
		vx.Check(g2.Err != nil && g2.Len() == -1, "Copy: unknown source rejected also when the destination has the same name")
		g3 := f.Drop("b").Copy("b", "b")
		vx.Check(g3.Err != nil, "Copy: a dropped column is unknown")
	case "copy_badname":
		g := f.Copy("$z", "a")
		vx.Check(g.Err != nil && g.Len() == -1, "Copy: illegal destination rejected")
	default:
		panic("op " + op)
	}
	// the source frame is untouched
	vxCheckFrame(f, names, cols, ix, "source after op")
	vx.Reach("end")
}

// VX_C08_enum_empty: the empty string is an enum value like any other, also as the first cell.
func VX_C08_enum_empty() {
	c := vx.Str(1)
	e, x := "", c
	data := []*string{&e, &x, nil, &e, &x}
	f := New(map[string]interface{}{"e": data}, newqf.Enums(map[string][]string{"e": nil}))
	vx.Check(f.Err == nil, "derived enum with empty strings: no error")
	if f.Err == nil {
		v := f.MustEnumView("e")
		for r, p := range data {
			q := v.ItemAt(r)
			vx.Check((p == nil) == (q == nil) && (p == nil || *p == *q), "every cell keeps its value (empty string first)")
		}
	}
	only := New(map[string]interface{}{"e": []*string{&e, &e}}, newqf.Enums(map[string][]string{"e": nil}))
	vx.Check(only.Err == nil && only.Len() == 2 && only.MustEnumView("e").ItemAt(1) != nil && *only.MustEnumView("e").ItemAt(1) == "", "a column of empty strings only")
	strict := New(map[string]interface{}{"e": []*string{&e, &x}}, newqf.Enums(map[string][]string{"e": {"a", "b"}}))
	vx.Check(strict.Err != nil, "the empty string is not a declared value")
	vx.Reach("end")
}
