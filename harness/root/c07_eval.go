package qframe

// C07: Eval computes the expression's value per row and leaves no temporaries.
// Expression trees come from a prefix-notation spec; constants and cells are
// symbolic; u1/u2 are user-registered uninterpreted (hence non-commutative) functions.

import (
	"strings"

	"github.com/tobgu/qframe/config/eval"
	"github.com/tobgu/qframe/function"
	"github.com/tobgu/qframe/internal/vx"
	"github.com/tobgu/qframe/types"
)

type c07node struct {
	op   string // "" for leaves
	leaf string // column name or "#i","#f","#b","#s"
	kids []*c07node
	ci   int
	cf   float64
	cb   bool
	cs   string
}

func c07parse(toks *[]string) *c07node {
	t := (*toks)[0]
	*toks = (*toks)[1:]
	if t != "(" {
		n := &c07node{leaf: t}
		switch t {
		case "#i":
			n.ci = vx.Int()
		case "#f":
			n.cf = vx.Float64()
		case "#b":
			n.cb = vx.Bool()
		case "#s":
			n.cs = vx.Str(1)
		}
		return n
	}
	n := &c07node{op: (*toks)[0]}
	*toks = (*toks)[1:]
	for (*toks)[0] != ")" {
		n.kids = append(n.kids, c07parse(toks))
	}
	*toks = (*toks)[1:]
	return n
}

// arg returns the value handed to Expr for this node.
func (n *c07node) arg() interface{} {
	if n.op == "" {
		switch n.leaf {
		case "#i":
			return n.ci
		case "#f":
			return n.cf
		case "#b":
			return n.cb
		case "#s":
			return n.cs
		}
		if n.leaf[0] == '@' { // an explicit column node: Val(ColumnName)
			return Val(types.ColumnName(n.leaf[1:]))
		}
		return types.ColumnName(n.leaf)
	}
	args := make([]interface{}, len(n.kids))
	for k, c := range n.kids {
		args[k] = c.arg()
	}
	// an operand list may be used for more than one expression: the one that is evaluated is
	// the second one built from it
	_ = Expr(n.op, args...)
	return Expr(n.op, args...)
}

func c07apply2(op string, x, y c06cell) c06cell {
	switch x.typ {
	case "int":
		switch op {
		case "+":
			return c06cell{typ: "int", i: function.PlusI(x.i, y.i)}
		case "-":
			return c06cell{typ: "int", i: function.MinusI(x.i, y.i)}
		case "*":
			return c06cell{typ: "int", i: function.MulI(x.i, y.i)}
		case "u2":
			return c06cell{typ: "int", i: vx.UFInt("u2", x.i, y.i)}
		}
	case "float":
		switch op {
		case "+":
			return c06cell{typ: "float", f: function.PlusF(x.f, y.f)}
		case "-":
			return c06cell{typ: "float", f: function.MinusF(x.f, y.f)}
		case "u2":
			return c06cell{typ: "float", f: vx.UFFloat("u2f", x.f, y.f)}
		}
	case "bool":
		switch op {
		case "&":
			return c06cell{typ: "bool", b: function.AndB(x.b, y.b)}
		case "|":
			return c06cell{typ: "bool", b: function.OrB(x.b, y.b)}
		case "!=":
			return c06cell{typ: "bool", b: function.XorB(x.b, y.b)}
		case "nand":
			return c06cell{typ: "bool", b: function.NandB(x.b, y.b)}
		case "u2":
			return c06cell{typ: "bool", b: vx.UFBool("u2b", x.b, y.b)}
		}
	case "string":
		if op == "+" {
			p := function.ConcatS(x.ptr(), y.ptr())
			if p == nil {
				return c06cell{typ: "string", null: true}
			}
			return c06cell{typ: "string", s: *p}
		}
	}
	panic("c07apply2: " + op + " on " + x.typ)
}

func c07apply1(op string, x c06cell) c06cell {
	switch x.typ {
	case "int":
		switch op {
		case "abs":
			return c06cell{typ: "int", i: function.AbsI(x.i)}
		case "bool":
			return c06cell{typ: "bool", b: function.BoolI(x.i)}
		case "u1":
			return c06cell{typ: "int", i: vx.UFInt("u1", x.i)}
		}
	case "float":
		switch op {
		case "u1":
			return c06cell{typ: "float", f: vx.UFFloat("u1f", x.f)}
		}
	case "bool":
		switch op {
		case "!":
			return c06cell{typ: "bool", b: function.NotB(x.b)}
		case "int":
			return c06cell{typ: "int", i: function.IntB(x.b)}
		}
	case "string":
		switch op {
		case "len":
			return c06cell{typ: "int", i: function.LenS(x.ptr())}
		case "upper":
			p := function.UpperS(x.ptr())
			if p == nil {
				return c06cell{typ: "string", null: true}
			}
			return c06cell{typ: "string", s: *p}
		case "us":
			p := c06ufS("us", x.ptr())
			if p == nil {
				return c06cell{typ: "string", null: true}
			}
			return c06cell{typ: "string", s: *p}
		case "str":
			p := function.StrS(x.ptr())
			if p == nil {
				return c06cell{typ: "string", null: true}
			}
			return c06cell{typ: "string", s: *p}
		}
	}
	panic("c07apply1: " + op + " on " + x.typ)
}

// eval is the reference: operands in the order written, n-ary folds from the left.
func (n *c07node) eval(cur map[string]vxCol, p int) c06cell {
	if n.op == "" {
		switch n.leaf {
		case "#i":
			return c06cell{typ: "int", i: n.ci}
		case "#f":
			return c06cell{typ: "float", f: n.cf}
		case "#b":
			return c06cell{typ: "bool", b: n.cb}
		case "#s":
			return c06cell{typ: "string", s: n.cs}
		}
		name := n.leaf
		if name[0] == '@' {
			name = name[1:]
		}
		c := c06get(cur[name], p)
		if c.typ == "enum" {
			c.typ = "string"
		}
		return c
	}
	if len(n.kids) == 1 {
		return c07apply1(n.op, n.kids[0].eval(cur, p))
	}
	acc := n.kids[0].eval(cur, p)
	for _, k := range n.kids[1:] {
		acc = c07apply2(n.op, acc, k.eval(cur, p))
	}
	return acc
}

func c07ctx() *eval.Context {
	ctx := eval.NewDefaultCtx()
	ctx.SetFunc("u1", func(x int) int { return vx.UFInt("u1", x) })
	ctx.SetFunc("u2", func(x, y int) int { return vx.UFInt("u2", x, y) })
	ctx.SetFunc("u1", func(x float64) float64 { return vx.UFFloat("u1f", x) })
	ctx.SetFunc("u2", func(x, y float64) float64 { return vx.UFFloat("u2f", x, y) })
	ctx.SetFunc("u2", func(x, y bool) bool { return vx.UFBool("u2b", x, y) })
	ctx.SetFunc("us", func(x *string) *string { return c06ufS("us", x) })
	return ctx
}

func VX_C07_eval() {
	n, P := vx.ParamInt("n"), vx.ParamInt("P")
	dst := vx.ParamStr("dst")
	names := []string{"a", "b", "f", "g", "c", "d", "s", "t", "x"}
	types_ := []string{"int", "int", "float", "float", "bool", "bool", "string", "string", "int"}
	if strings.Contains(" "+vx.ParamStr("expr")+" ", " e ") { // an enum operand
		names = append(names, "e")
		types_ = append(types_, "enum")
	}
	if vx.HasParam("tempcol") { // a user column that looks like a temporary
		names = append(names, vx.ParamStr("tempcol"))
		types_ = append(types_, "int")
	}
	cols := make([]vxCol, len(names))
	for k := range names {
		cols[k] = vxMakeColLite(types_[k], P)
	}
	ix := vxConcIndex(n, P)
	f := vxFrame(names, cols, ix)
	toks := strings.Fields(vx.ParamStr("expr"))
	tree := c07parse(&toks)
	var ex Expression
	if tree.op == "" {
		ex = Val(tree.arg())
	} else {
		ex = tree.arg().(Expression)
	}
	r := f.Eval(dst, ex, eval.EvalContext(c07ctx()))
	vx.Check(r.Err == nil, "no error for a well-formed expression")
	cur := map[string]vxCol{}
	for k, nm := range names {
		cur[nm] = cols[k]
	}
	cells := make([]c06cell, P)
	typ := ""
	for row := 0; row < n; row++ {
		p := int(ix[row])
		cells[p] = tree.eval(cur, p)
		typ = cells[p].typ
	}
	order := append([]string{}, names...)
	if _, ok := cur[dst]; !ok {
		order = append(order, dst)
	}
	cur[dst] = c06colFromCells(typ, cells)
	ocols := make([]vxCol, len(order))
	for k, nm := range order {
		ocols[k] = cur[nm]
	}
	vxCheckFrame(r, order, ocols, ix, "Eval")
	vxCheckFrame(f, names, cols, ix, "source frame")
	if vx.HasParam("sib") && r.Err == nil {
		// frames derived from one parent (itself made by adding a column) are independent
		p := r.Copy("p", order[0])
		t1 := p.Eval("sib1", Val(types.ColumnName(order[0])), eval.EvalContext(c07ctx()))
		t2 := p.Eval("sib2", ex, eval.EvalContext(c07ctx()))
		vx.Check(t2.Err == nil, "second sibling")
		vxCheckFrame(t1, append(append([]string{}, order...), "p", "sib1"), append(append([]vxCol{}, ocols...), ocols[0], ocols[0]), ix, "first sibling after the second was derived")
		vxCheckFrame(t2, append(append([]string{}, order...), "p", "sib2"), append(append([]vxCol{}, ocols...), ocols[0], cur[dst]), ix, "second sibling")
	}
	vx.Reach("end")
}

// VX_C07_errors: malformed or ill-typed expressions set Err and never panic.
func VX_C07_errors() {
	P := 2
	names := []string{"a", "f", "s"}
	cols := []vxCol{vxMakeColLite("int", P), vxMakeColLite("float", P), vxMakeColLite("string", P)}
	f := vxFrame(names, cols, vxConcIndex(2, P))
	var ex Expression
	switch vx.ParamStr("case") {
	case "unknown_fn":
		ex = Expr("nosuch", types.ColumnName("a"), types.ColumnName("a"))
	case "unknown_fn1":
		ex = Expr("nosuch", types.ColumnName("a"))
	case "unknown_col":
		ex = Expr("+", types.ColumnName("a"), types.ColumnName("zz"))
	case "unknown_col_const":
		ex = Expr("+", types.ColumnName("zz"), 1)
	case "type_mismatch":
		ex = Expr("+", types.ColumnName("a"), types.ColumnName("f"))
	case "type_mismatch_const":
		ex = Expr("+", types.ColumnName("a"), 1.5)
	case "no_args":
		ex = Expr("+")
	case "malformed_list":
		ex = Val([]interface{}{"+", 1, 2, 3})
	case "malformed_op":
		ex = Val([]interface{}{1, types.ColumnName("a"), types.ColumnName("a")})
	case "not_a_list":
		ex = Val(struct{}{})
	case "nested_error":
		ex = Expr("+", types.ColumnName("a"), Expr("nosuch", types.ColumnName("a")))
	case "nested_error_lhs":
		ex = Expr("+", Expr("nosuch", types.ColumnName("a")), types.ColumnName("a"))
	default:
		panic("case")
	}
	r := f.Eval("z", ex)
	vx.Check(r.Err != nil, "invalid expression is reported through Err")
	vx.Check(r.Len() == -1, "failed frame exposes no rows")
	vx.Reach("end")
}

// VX_C07_ctx: evaluation contexts are independent of each other.
func VX_C07_ctx() {
	P := 2
	names := []string{"a"}
	cols := []vxCol{vxMakeColLite("int", P)}
	ix := []uint32{1, 0}
	f := vxFrame(names, cols, ix)
	ctx1 := eval.NewDefaultCtx()
	ctx1.SetFunc("double", func(x int) int { return vx.UFInt("dbl", x) })
	ctx1.SetFunc("+", func(x, y int) int { return vx.UFInt("myplus", x, y) })
	// the registering context sees its functions
	r1 := f.Eval("z", Expr("double", types.ColumnName("a")), eval.EvalContext(ctx1))
	vx.Check(r1.Err == nil, "registered function is found in its own context")
	// the default context and a fresh context do not
	r2 := f.Eval("z", Expr("double", types.ColumnName("a")))
	vx.Check(r2.Err != nil, "a function registered in one context is unknown to the default context")
	r3 := f.Eval("z", Expr("double", types.ColumnName("a")), eval.EvalContext(eval.NewDefaultCtx()))
	vx.Check(r3.Err != nil, "a function registered in one context is unknown to a fresh context")
	// an overridden builtin stays overridden only there
	c := vx.Int()
	r4 := f.Eval("z", Expr("+", types.ColumnName("a"), c))
	vx.Check(r4.Err == nil, "builtin + in the default context")
	if r4.Err == nil {
		v := r4.MustIntView("z")
		for row := 0; row < 2; row++ {
			vx.Check(v.ItemAt(row) == cols[0].i[ix[row]]+c, "builtin + is still addition in the default context")
		}
	}
	// the context the user supplied is the one that is consulted: registrations made after the option
	// value was created (but before Eval runs) are part of it
	ctx2 := eval.NewDefaultCtx()
	opt := eval.EvalContext(ctx2)
	ctx2.SetFunc("triple", func(x int) int { return vx.UFInt("tpl", x) })
	ctx2.SetFunc("-", func(x, y int) int { return vx.UFInt("myminus", x, y) })
	r5 := f.Eval("z", Expr("triple", types.ColumnName("a")), opt)
	vx.Check(r5.Err == nil, "function registered after the option was created is found in the supplied context")
	r6 := f.Eval("z", Expr("-", types.ColumnName("a"), c), opt)
	vx.Check(r6.Err == nil, "override registered after the option was created: no error")
	if r5.Err == nil && r6.Err == nil {
		v5, v6 := r5.MustIntView("z"), r6.MustIntView("z")
		for row := 0; row < 2; row++ {
			vx.Check(v5.ItemAt(row) == vx.UFInt("tpl", cols[0].i[ix[row]]), "late registration: cell value")
			vx.Check(v6.ItemAt(row) == vx.UFInt("myminus", cols[0].i[ix[row]], c), "late override is the function that runs")
		}
	}
	// a second evaluation through the same option value after yet another registration
	ctx2.SetFunc("triple", func(x int) int { return vx.UFInt("tpl2", x) })
	r7 := f.Eval("z", Expr("triple", types.ColumnName("a")), opt)
	vx.Check(r7.Err == nil, "re-registered function: no error")
	if r7.Err == nil {
		v7 := r7.MustIntView("z")
		for row := 0; row < 2; row++ {
			vx.Check(v7.ItemAt(row) == vx.UFInt("tpl2", cols[0].i[ix[row]]), "re-registered function is the one that runs")
		}
	}
	vx.Reach("end")
}

// VX_C07_upper: the default context's string functions on enum and string columns (concrete cells;
// the solver only picks the row arrangement): the result is a string column whatever the operand is.
func VX_C07_upper() {
	P := 3
	ec := vxCol{typ: "enum", s: []string{"b", "", "c"}, null: []bool{false, true, false}}
	sc := vxCol{typ: "string", s: []string{"x", "yY", ""}, null: []bool{false, false, true}}
	ix := vxConcIndex(2, P)
	f := vxFrame([]string{"e", "s"}, []vxCol{ec, sc}, ix)
	up := func(c vxCol, f func(*string) *string) vxCol {
		out := vxCol{typ: "string", s: make([]string, P), null: make([]bool, P)}
		for p := 0; p < P; p++ {
			r := f(c06get(c, p).ptr())
			out.null[p] = r == nil
			if r != nil {
				out.s[p] = *r
			}
		}
		return out
	}
	r1 := f.Eval("u", Expr("upper", types.ColumnName("e")))
	vxCheckFrame(r1, []string{"e", "s", "u"}, []vxCol{ec, sc, up(ec, function.UpperS)}, ix, "upper of an enum column is a string column")
	r2 := f.Eval("u", Expr("+", Expr("upper", types.ColumnName("e")), types.ColumnName("s")))
	cat := vxCol{typ: "string", s: make([]string, P), null: make([]bool, P)}
	ue := up(ec, function.UpperS)
	for p := 0; p < P; p++ {
		r := function.ConcatS(c06get(ue, p).ptr(), c06get(sc, p).ptr())
		cat.null[p] = r == nil
		if r != nil {
			cat.s[p] = *r
		}
	}
	vxCheckFrame(r2, []string{"e", "s", "u"}, []vxCol{ec, sc, cat}, ix, "upper(enum) + string")
	r3 := f.Eval("e", Expr("lower", Expr("upper", types.ColumnName("s"))))
	vxCheckFrame(r3, []string{"e", "s"}, []vxCol{up(up(sc, function.UpperS), function.LowerS), sc}, ix, "lower(upper(string)) onto an enum destination")
	vx.Reach("end")
}
