package qframe

import "github.com/tobgu/qframe/internal/vx"

func VX_dev_or_isnull() {
	const P, n = 3, 3
	a, k := make([]int, P), make([]int, P)
	for i := range a {
		a[i], k[i] = vx.Int(), vx.Int()
	}
	f := New(map[string]interface{}{"a": a, "k": k})
	vx.Check(f.Err == nil, "new ok")
	c := vx.Int()
	in := f.MustIntView("a").Slice()
	r := f.Filter(Or(Filter{Column: "a", Comparator: ">", Arg: c},
		Filter{Column: "a", Comparator: "isnull"}))
	vx.Check(r.Err == nil, "no error")
	out := r.MustIntView("a").Slice()
	j := 0
	for i := 0; i < n; i++ {
		keep := in[i] > c
		if keep {
			vx.Check(j < len(out) && out[j] == in[i], "kept in order")
			j++
		}
	}
	vx.Check(j == len(out), "nothing else kept")
	vx.Reach("end")
}
