package ryu

// C16 (partial): the parts of the float rendering that can be decided:
// special values and dispatch, the exact-integer path, and the positional
// layout of dec64.appendF for every destination buffer state. The shortest
// digit search (float64ToDecimal) is outside the claim (see DESIGN 5).

import (
	"math"

	"github.com/tobgu/qframe/internal/vx"
)

// VX_C16_special: zeros and infinities, any buffer state.
func VX_C16_special() {
	vx.RealDigits()
	f := vx.Float64()
	u := math.Float64bits(f)
	exp := (u >> 52) & 0x7ff
	mant := u & (1<<52 - 1)
	vx.Assume(vx.Or(vx.And(exp == 0x7ff, mant == 0), vx.And(exp == 0, mant == 0)))
	pre := vx.Bytes(3)
	b := append([]byte{}, pre...)
	out := AppendFloat64f(b, f)
	neg := u>>63 != 0
	var want string
	switch {
	case exp == 0 && neg:
		want = "-0"
	case exp == 0:
		want = "0"
	case neg:
		want = "-Inf"
	default:
		want = "+Inf"
	}
	vx.Check(len(out) == 3+len(want), "special value: length")
	if len(out) == 3+len(want) {
		vx.Check(string(out[:3]) == string(pre), "existing buffer content untouched")
		vx.Check(string(out[3:]) == want, "special value text as strconv.FormatFloat(f,'f',-1,64)")
	}
	vx.Reach("end")
}

// VX_C16_exactint: float64ToDecimalExactInt returns (m,e) with m*10^e == value, m%10 != 0.
func VX_C16_exactint() {
	vx.RealDigits()
	mant := vx.Uint64()
	vx.Assume(mant < 1<<52)
	e2 := vx.ParamInt("e2") // unbiased binary exponent 0..52
	exp := uint64(e2 + bias64)
	d, ok := float64ToDecimalExactInt(mant, exp)
	full := mant | 1<<52
	shift := uint(52 - e2)
	isInt := (full>>shift)<<shift == full
	vx.Check(ok == isInt, "exact-int path taken iff the value is an integer below 2^53")
	if ok {
		v := full >> shift
		p := uint64(1)
		for k := int32(0); k < d.e; k++ {
			p *= 10
		}
		vx.Check(d.e >= 0 && d.e <= 15, "decimal exponent in range")
		vx.Check(d.m*p == v, "m * 10^e equals the value")
		vx.Check(d.m%10 != 0, "no trailing zero left in m")
		vx.Reach("exact")
	}
	vx.Reach("end")
}

// c16digits extracts the decimal digits of m, least significant first, with the
// same %10 and /10 chain the implementation uses (so the solver compares identical terms).
func c16digits(m uint64, n int) []byte {
	ds := make([]byte, n)
	for k := 0; k < n; k++ {
		ds[k] = '0' + byte(m%10)
		m /= 10
	}
	return ds
}

// VX_C16_layout: dec64.appendF places sign, digits, zeros and the point correctly
// for every destination buffer state.
func VX_C16_layout() {
	vx.RealDigits()
	e := vx.ParamInt("e")
	n0, spare := vx.ParamInt("n0"), vx.ParamInt("spare")
	m := vx.Uint64()
	vx.Assume(m >= 1 && m < 100000000000000000)
	neg := vx.Bool()
	buf := vx.Bytes(n0 + spare) // arbitrary content, also in the spare capacity
	b := buf[:n0:n0+spare]
	pre := append([]byte{}, buf[:n0]...)
	out := dec64{m: m, e: int32(e)}.appendF(b, neg)
	L := decimalLen64(m)
	// L is the number of decimal digits: 10^(L-1) <= m < 10^L
	pw := uint64(1)
	for k := 1; k < L; k++ {
		pw *= 10
	}
	vx.Check(m >= pw && (L == 17 || m < pw*10) && L >= 1 && L <= 17, "decimalLen64 is the digit count")
	ds := c16digits(m, L) // ds[0] is the last digit
	var want []byte
	if neg {
		want = append(want, '-')
	}
	switch {
	case e >= 0:
		for k := L - 1; k >= 0; k-- {
			want = append(want, ds[k])
		}
		for k := 0; k < e; k++ {
			want = append(want, '0')
		}
	case -e >= L:
		want = append(want, '0', '.')
		for k := 0; k < -e-L; k++ {
			want = append(want, '0')
		}
		for k := L - 1; k >= 0; k-- {
			want = append(want, ds[k])
		}
	default:
		for k := L - 1; k >= -e; k-- {
			want = append(want, ds[k])
		}
		want = append(want, '.')
		for k := -e - 1; k >= 0; k-- {
			want = append(want, ds[k])
		}
	}
	vx.Check(len(out) == n0+len(want), "rendered length")
	if len(out) == n0+len(want) {
		for k := 0; k < n0; k++ {
			vx.Check(out[k] == pre[k], "existing buffer content untouched")
		}
		for k := range want {
			vx.Check(out[n0+k] == want[k], "positional digits of m*10^e")
		}
	}
	vx.Reach("end")
}
