package sort

// C03-B/C: the sorter's kernels under an abstract strict weak order.
// Any strict weak order on a finite set is induced by a rank function, so a
// Comparable over symbolic ranks is fully general for the sorting code.

import (
	"github.com/tobgu/qframe/internal/column"
	"github.com/tobgu/qframe/internal/index"
	"github.com/tobgu/qframe/internal/vx"
)

type vxRank struct{ r []int }

func (c vxRank) Compare(i, j uint32) column.CompareResult {
	x, y := c.r[i], c.r[j]
	if x < y {
		return column.LessThan
	}
	if x > y {
		return column.GreaterThan
	}
	return column.Equal
}

func (c vxRank) Hash(i uint32, seed uint64) uint64 { return 0 }

// vxRanks returns n symbolic ranks restricted per `mode`.
func vxRanks(n int, mode string) []int {
	r := make([]int, n)
	switch mode {
	case "any":
		for k := range r {
			r[k] = vx.Int()
		}
	case "distinct":
		for k := range r {
			r[k] = vx.Int()
			for j := 0; j < k; j++ {
				vx.Assume(r[k] != r[j])
			}
		}
	case "binary":
		for k := range r {
			r[k] = vx.IntN(0, 1)
		}
	case "ternary":
		for k := range r {
			r[k] = vx.IntN(0, 2)
		}
	case "few": // all tied except 3 symbolic positions with symbolic values
		for k := range r {
			r[k] = 5
		}
		for t := 0; t < 3; t++ {
			p := vx.IntN(0, n-1)
			v := vx.IntN(0, 10)
			for k := range r {
				r[k] = vx.IteInt(p == k, v, r[k])
			}
		}
	case "blocks": // four constant runs with symbolic lengths; the run values are the digits of param vs
		vs := vx.ParamStr("vs")
		a := vx.IntN(0, n)
		b := vx.IntN(0, n)
		c := vx.IntN(0, n)
		vx.Assume(vx.And(a <= b, b <= c))
		for k := range r {
			r[k] = vx.IteInt(k < a, int(vs[0]-'0'), vx.IteInt(k < b, int(vs[1]-'0'), vx.IteInt(k < c, int(vs[2]-'0'), int(vs[3]-'0'))))
		}
	default:
		panic("mode " + mode)
	}
	return r
}

func vxCheckSorted(s Sorter, r []int, a, b int, label string) {
	n := len(s.index)
	// permutation of 0..n-1: every row id occurs exactly once
	for id := 0; id < n; id++ {
		cnt := 0
		for k := 0; k < n; k++ {
			cnt += vx.B2I(s.index[k] == uint32(id))
		}
		vx.Check(cnt == 1, label+": permutation")
	}
	for k := a; k+1 < b; k++ {
		vx.Check(r[s.index[k]] <= r[s.index[k+1]], label+": adjacent rows ordered")
	}
}

func vxSorter(n int, mode string) (Sorter, []int) {
	r := vxRanks(n, mode)
	return New(index.NewAscending(uint32(n)), []column.Comparable{vxRank{r}}), r
}

func VX_C03_kernel() {
	n := vx.ParamInt("n")
	mode := vx.ParamStr("mode")
	s, r := vxSorter(n, mode)
	switch vx.ParamStr("kernel") {
	case "insertion":
		insertionSort(s, 0, n)
		vxCheckSorted(s, r, 0, n, "insertionSort")
	case "shell": // the <=12 branch of quickSort: gap-6 pass + insertion sort
		quickSort(s, 0, n, maxDepth(n))
		vxCheckSorted(s, r, 0, n, "shell pass")
	case "heap":
		heapSort(s, 0, n)
		vxCheckSorted(s, r, 0, n, "heapSort")
	case "heap_range", "insertion_range", "quick0_range":
		// the kernels are called on sub-ranges [a,b) by quickSort: rows outside stay put
		a, b := vx.ParamInt("a"), vx.ParamInt("b")
		switch vx.ParamStr("kernel") {
		case "heap_range":
			heapSort(s, a, b)
		case "insertion_range":
			insertionSort(s, a, b)
		default:
			quickSort(s, a, b, 0)
		}
		for k := 0; k < n; k++ {
			if k < a || k >= b {
				vx.Check(s.index[k] == uint32(k), "rows outside the range are untouched")
			}
		}
		vxCheckSorted(s, r, a, b, "range kernel")
	case "heap_fallback": // quickSort with exhausted depth must fall back to heapSort
		quickSort(s, 0, n, 0)
		vxCheckSorted(s, r, 0, n, "quickSort depth 0")
	case "sort":
		s.Sort()
		vxCheckSorted(s, r, 0, n, "Sort")
	case "median3":
		medianOfThree(s, 1, 0, 2)
		vx.Check(r[s.index[0]] <= r[s.index[1]] && r[s.index[1]] <= r[s.index[2]], "medianOfThree orders its three elements")
		vxCheckSorted(s, r, 0, 0, "medianOfThree")
	case "pivot", "pivot_range":
		lo, hi := 0, n
		if vx.ParamStr("kernel") == "pivot_range" {
			lo, hi = vx.ParamInt("a"), vx.ParamInt("b")
		}
		midlo, midhi := doPivot(s, lo, hi)
		vx.Check(lo <= midlo && midlo < midhi && midhi <= hi, "doPivot: bounds")
		p := r[s.index[midlo]]
		for k := lo; k < hi; k++ {
			v := r[s.index[k]]
			switch {
			case k < midlo:
				vx.Check(v <= p, "doPivot: left part <= pivot")
			case k < midhi:
				vx.Check(v == p, "doPivot: middle part == pivot")
			default:
				vx.Check(v >= p, "doPivot: right part >= pivot")
			}
		}
		vxCheckSorted(s, r, 0, 0, "doPivot")
	default:
		panic("kernel")
	}
	vx.Reach("end")
}
