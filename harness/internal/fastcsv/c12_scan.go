package fastcsv

// C12-A: the CSV scanner against a reference RFC 4180 parser, for every
// well-formed document over a class alphabet and every fragmentation of the
// stream by the io.Reader (chunk sizes and EOF style symbolic).

import (
	"io"

	"github.com/tobgu/qframe/internal/vx"
)

type vxReader struct {
	d           []byte
	pos         int
	eofWithData bool
	failAt      int // C15: from this byte offset on the reader fails (-1: never)
	failed      bool
	whole       bool // deliver as much as fits (no symbolic fragmentation)
}

var errBoom = io.ErrClosedPipe

func (r *vxReader) Read(p []byte) (int, error) {
	rem := len(r.d) - r.pos
	if r.failAt >= 0 {
		if r.pos >= r.failAt {
			r.failed = true
			return 0, errBoom
		}
		if rem > r.failAt-r.pos {
			rem = r.failAt - r.pos
		}
	}
	if rem == 0 {
		return 0, io.EOF
	}
	if len(p) == 0 {
		return 0, nil
	}
	max := rem
	if len(p) < max {
		max = len(p)
	}
	k := max
	if !r.whole && max > 1 {
		k = vxConcN(vx.IntN(1, max), max)
	}
	copy(p, r.d[r.pos:r.pos+k])
	r.pos += k
	if r.pos == len(r.d) && r.eofWithData && r.failAt < 0 {
		return k, io.EOF
	}
	return k, nil
}

func vxConcN(v, hi int) int {
	for k := 1; k <= hi; k++ {
		if v == k {
			return k
		}
	}
	vx.Assume(false)
	return 1
}

const (
	vxText = iota
	vxDelim
	vxQuote
	vxLF
	vxCR
)

// vxClass classifies (and thereby concretises the class of) one byte.
func vxClass(b byte, delim byte) int {
	switch {
	case b == delim:
		return vxDelim
	case b == '"':
		return vxQuote
	case b == '\n':
		return vxLF
	case b == '\r':
		return vxCR
	}
	return vxText
}

// vxRefParse is a direct transcription of RFC 4180 (LF or CRLF record ends,
// optional final line break, doubled quotes inside quoted fields; a trailing
// delimiter denotes a final empty field). ok=false: not well formed
// (also: any CR that is not part of a CRLF record end).
func vxRefParse(d []byte, delim byte) (rows [][]string, ok bool) {
	var row []string
	var field []byte
	i, n := 0, len(d)
	if n == 0 {
		return nil, true
	}
	for {
		// one field
		field = field[:0]
		if i < n && vxClass(d[i], delim) == vxQuote {
			i++
			for {
				if i >= n {
					return nil, false // unterminated quote
				}
				c := vxClass(d[i], delim)
				if c == vxCR {
					return nil, false // CR inside a quoted field: outside the claim
				}
				if c == vxQuote {
					if i+1 < n && vxClass(d[i+1], delim) == vxQuote {
						field = append(field, '"')
						i += 2
						continue
					}
					i++
					break
				}
				field = append(field, d[i])
				i++
			}
		} else {
			for i < n {
				c := vxClass(d[i], delim)
				if c == vxQuote {
					return nil, false // quote inside an unquoted field
				}
				if c != vxText {
					break
				}
				field = append(field, d[i])
				i++
			}
		}
		row = append(row, string(field))
		// what follows the field
		if i >= n {
			rows = append(rows, row)
			return rows, true
		}
		switch vxClass(d[i], delim) {
		case vxDelim:
			i++
			continue
		case vxCR:
			if i+1 >= n || vxClass(d[i+1], delim) != vxLF {
				return nil, false // bare CR
			}
			i += 2
		case vxLF:
			i++
		default:
			return nil, false // garbage after closing quote
		}
		rows = append(rows, row)
		row = nil
		if i >= n {
			return rows, true // final line break
		}
	}
}

func vxCopyFields(fs [][]byte) []string {
	out := make([]string, len(fs))
	for k, f := range fs {
		out[k] = string(f)
	}
	return out
}

func vxDoc(L int, delim byte) []byte {
	d := vx.Bytes(L)
	for _, b := range d {
		if delim == ',' {
			vx.Assume(vx.Or(vx.Or(b == ',', b == '"'), vx.Or(vx.Or(b == '\n', b == '\r'), vx.Or(b == 'a', b == 'b'))))
		} else {
			// a delimiter outside ASCII: cells hold Latin-1 bytes, lone lead and continuation bytes of UTF-8
			vx.Assume(vx.Or(vx.Or(b == delim, b == '"'), vx.Or(vx.Or(b == '\n', b == 0xe9), vx.Or(b == 'a', vx.Or(b == 0xc3, b == 0xa9)))))
		}
	}
	return d
}

func VX_C12_scan() {
	L, capc := vx.ParamInt("L"), vx.ParamInt("cap")
	delim := byte(',')
	if vx.HasParam("delim") {
		delim = byte(vx.ParamInt("delim"))
	}
	d := vxDoc(L, delim)
	want, ok := vxRefParse(d, delim)
	vx.Assume(ok)
	src := &vxReader{d: d, eofWithData: vx.Bool(), failAt: -1, whole: vx.ParamStr("sched") == "whole"}
	rd := Reader{fields: fields{buffer: bufferedReader{r: &eofReaderWrapper{r: src}, data: make([]byte, 0, capc)}, delimiter: delim}, fieldsBuffer: make([][]byte, 0, 16)}
	var got [][]string
	for rd.Next() {
		got = append(got, vxCopyFields(rd.Fields()))
		if len(got) > L+1 {
			break
		}
	}
	vx.Check(rd.Err() == nil, "no error on a well-formed document")
	vx.Check(len(got) == len(want), "number of records")
	if len(got) == len(want) {
		for r := range want {
			vx.Check(len(got[r]) == len(want[r]), "number of fields in record")
			if len(got[r]) == len(want[r]) {
				for c := range want[r] {
					vx.Check(got[r][c] == want[r][c], "field content")
				}
			}
		}
	}
	vx.Reach("end")
}
