package ecolumn

import "github.com/tobgu/qframe/internal/vx"

// C17-A: bitset over all 256 enum values with an arbitrary prior content.
func VX_C17_bitset() {
	var s bitset
	for k := range s {
		s[k] = vx.Uint64()
	}
	before := s
	v, w := enumVal(vx.Byte()), enumVal(vx.Byte())
	was := before.isSet(w)
	s.set(v)
	vx.Check(s.isSet(w) == vx.Or(w == v, was), "after set(v): isSet(w) iff w==v or it was set before")
	vx.Check(s.isSet(v), "set(v) sets v")
	vx.Reach("end")
}
