package grouper

// C04-B / C05: the hash table itself, across growth steps, with an abstract key
// column (symbolic keys, hash either the key itself or an uninterpreted function
// with a few admissible slot patterns).

import (
	"github.com/tobgu/qframe/internal/column"
	"github.com/tobgu/qframe/internal/index"
	"github.com/tobgu/qframe/internal/vx"
)

type vxKeys struct {
	k []int
	h []uint64
}

func (c vxKeys) Compare(i, j uint32) column.CompareResult {
	if c.k[i] < c.k[j] {
		return column.LessThan
	}
	if c.k[i] > c.k[j] {
		return column.GreaterThan
	}
	return column.Equal
}

func (c vxKeys) Hash(i uint32, seed uint64) uint64 { return c.h[i] }

func VX_C04_table() {
	n, conc := vx.ParamInt("n"), vx.ParamInt("conc")
	hmode := vx.ParamStr("hash")
	keys := vxKeys{k: make([]int, n), h: make([]uint64, n)}
	stride := 1
	if vx.HasParam("stride") {
		// stride 8: all keys start in one slot of the 8-slot table (one long probe chain), two slots after growth;
		// stride 16: one chain before and after growth
		stride = vx.ParamInt("stride")
	}
	for r := 0; r < n; r++ {
		if r < conc {
			keys.k[r] = 8 + r*stride // distinct, bit 3 set: the start slot differs between 8 and 16 slots
		} else {
			keys.k[r] = 8 + stride*vx.IntN(0, conc)
		}
		switch hmode {
		case "ident":
			keys.h[r] = uint64(keys.k[r])
		case "uf":
			keys.h[r] = vx.UFU64("h", keys.k[r])
			low := keys.h[r] & 15
			vx.Assume(vx.Or(vx.Or(low == 0, low == 1), vx.Or(low == 8, low == 15)))
		}
	}
	ix := index.NewAscending(uint32(n))
	groups, stats := GroupBy(ix, []column.Comparable{keys})
	if n > 4 {
		vx.Check(stats.RelocationCount > 0, "the table grew")
		vx.Reach("grow")
	}
	group := make([]int, n)
	for r := range group {
		group[r] = -1
	}
	for gi, g := range groups {
		last := -1
		for _, id := range g {
			vx.Check(int(id) < n && group[id] == -1, "row in exactly one group")
			if int(id) >= n || group[id] != -1 {
				return
			}
			group[id] = gi
			vx.Check(int(id) > last, "group rows in frame order")
			last = int(id)
		}
	}
	for a := 0; a < n; a++ {
		vx.Check(group[a] >= 0, "every row is in a group")
		for b := a + 1; b < n; b++ {
			vx.Check((keys.k[a] == keys.k[b]) == (group[a] == group[b]), "rows share a group iff keys are equal (across table growth)")
		}
	}
	d := Distinct(ix, []column.Comparable{keys})
	vx.Check(len(d) == len(groups), "Distinct keeps one row per key")
	for a := 0; a < len(d); a++ {
		for b := a + 1; b < len(d); b++ {
			vx.Check(keys.k[d[a]] != keys.k[d[b]], "Distinct rows have different keys")
		}
	}
	// a later call on fewer rows (state carried between calls must not leak into it)
	if n >= 4 {
		small := index.NewAscending(3)
		d2 := Distinct(small, []column.Comparable{keys})
		for a := 0; a < len(d2); a++ {
			vx.Check(d2[a] < 3, "second Distinct: only rows of its own input")
			for b := a + 1; b < len(d2); b++ {
				vx.Check(d2[a] >= 3 || d2[b] >= 3 || keys.k[d2[a]] != keys.k[d2[b]], "second Distinct: rows have different keys")
			}
		}
		for r := 0; r < 3; r++ {
			found := false
			for _, id := range d2 {
				found = vx.Or(found, id < 3 && keys.k[id] == keys.k[r])
			}
			vx.Check(found, "second Distinct: every input key is represented")
		}
	}
	vx.Reach("end")
}
