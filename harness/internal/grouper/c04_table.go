package grouper

// C04-B / C05: the hash table itself, across growth steps, with an abstract key
// column (symbolic keys, hash either the key itself or an uninterpreted function
// with a few admissible slot patterns).

import (
	"github.com/tobgu/qframe/internal/column"
	"github.com/tobgu/qframe/internal/index"
	"github.com/tobgu/qframe/internal/vx"
)

type vxKeys struct {
	k []int
	h []uint64
}

func (c vxKeys) Compare(i, j uint32) column.CompareResult {
	if c.k[i] < c.k[j] {
		return column.LessThan
	}
	if c.k[i] > c.k[j] {
		return column.GreaterThan
	}
	return column.Equal
}

func (c vxKeys) Hash(i uint32, seed uint64) uint64 { return c.h[i] }

func VX_C04_table() {
	n, conc := vx.ParamInt("n"), vx.ParamInt("conc")
	hmode := vx.ParamStr("hash")
	keys := vxKeys{k: make([]int, n), h: make([]uint64, n)}
	stride := 1
	if vx.HasParam("stride") {
		// stride 8: all keys start in one slot of the 8-slot table (one long probe chain), two slots after growth;
		// stride 16: one chain before and after growth
		stride = vx.ParamInt("stride")
	}
	for r := 0; r < n; r++ {
		if r < conc {
			keys.k[r] = 8 + r*stride // distinct, bit 3 set: the start slot differs between 8 and 16 slots
		} else {
			keys.k[r] = 8 + stride*vx.IntN(0, conc)
		}
		switch hmode {
		case "ident":
			keys.h[r] = uint64(keys.k[r])
		case "uf":
			keys.h[r] = vx.UFU64("h", keys.k[r])
			low := keys.h[r] & 15
			vx.Assume(vx.Or(vx.Or(low == 0, low == 1), vx.Or(low == 8, low == 15)))
		}
	}
	ix := index.NewAscending(uint32(n))
	groups, stats := GroupBy(ix, []column.Comparable{keys})
	if n > 4 {
		vx.Check(stats.RelocationCount > 0, "the table grew")
		vx.Reach("grow")
	}
	group := make([]int, n)
	for r := range group {
		group[r] = -1
	}
	for gi, g := range groups {
		last := -1
		for _, id := range g {
			vx.Check(int(id) < n && group[id] == -1, "row in exactly one group")
			if int(id) >= n || group[id] != -1 {
				return
			}
			group[id] = gi
			vx.Check(int(id) > last, "group rows in frame order")
			last = int(id)
		}
	}
	for a := 0; a < n; a++ {
		vx.Check(group[a] >= 0, "every row is in a group")
		for b := a + 1; b < n; b++ {
			vx.Check((keys.k[a] == keys.k[b]) == (group[a] == group[b]), "rows share a group iff keys are equal (across table growth)")
		}
	}
	d := Distinct(ix, []column.Comparable{keys})
	vx.Check(len(d) == len(groups), "Distinct keeps one row per key")
	for a := 0; a < len(d); a++ {
		for b := a + 1; b < len(d); b++ {
			vx.Check(keys.k[d[a]] != keys.k[d[b]], "Distinct rows have different keys")
		}
	}
	// a later call on fewer rows (state carried between calls must not leak into it)
	if n >= 4 {
		small := index.NewAscending(3)
		d2 := Distinct(small, []column.Comparable{keys})
		for a := 0; a < len(d2); a++ {
			vx.Check(d2[a] < 3, "second Distinct: only rows of its own input")
			for b := a + 1; b < len(d2); b++ {
				vx.Check(d2[a] >= 3 || d2[b] >= 3 || keys.k[d2[a]] != keys.k[d2[b]], "second Distinct: rows have different keys")
			}
		}
		for r := 0; r < 3; r++ {
			found := false
			for _, id := range d2 {
				found = vx.Or(found, id < 3 && keys.k[id] == keys.k[r])
			}
			vx.Check(found, "second Distinct: every input key is represented")
		}
	}
	vx.Reach("end")
}

// VX_C04_table_big: sizes at which size-dependent strategies start (the initial table has 64 slots from
// 128 rows on and grows from there). Two groupings in a row over different keys; the groups handed out
// by the first must still be what they were after the second (state recycled between calls), and both
// must be partitions by key. All keys but one are concrete: the solver picks the key of one row.
func VX_C04_table_big() {
	n, m1, m2 := vx.ParamInt("n"), vx.ParamInt("m1"), vx.ParamInt("m2")
	strict := vx.HasParam("strict")
	mk := func(m int, symRow int) vxKeys {
		keys := vxKeys{k: make([]int, n), h: make([]uint64, n)}
		for r := 0; r < n; r++ {
			keys.k[r] = (r * 7) % m
			if r == symRow {
				keys.k[r] = vx.IntN(0, m-1)
			}
			keys.h[r] = uint64(keys.k[r]) * 64 // every key starts in slot 0 of a 64-slot table: long chains
		}
		return keys
	}
	check := func(keys vxKeys, groups []index.Int, who string) {
		group := make([]int, n)
		for r := range group {
			group[r] = -1
		}
		for gi, g := range groups {
			last := -1
			for _, id := range g {
				vx.Check(int(id) < n && group[id] == -1, who+": row in exactly one group")
				if int(id) >= n || group[id] != -1 {
					return
				}
				group[id] = gi
				vx.Check(int(id) > last, who+": group rows in frame order")
				last = int(id)
			}
			vx.Check(len(g) > 0, who+": no empty group")
			for _, id := range g {
				vx.Check(keys.k[id] == keys.k[g[0]], who+": rows of a group share the key")
			}
		}
		seen := map[int]int{}
		for r := 0; r < n; r++ {
			vx.Check(group[r] >= 0, who+": every row is in a group")
		}
		for gi, g := range groups {
			k := vxConcKey(keys.k[g[0]], 64)
			_, dup := seen[k]
			vx.Check(!dup, who+": one group per key")
			seen[k] = gi
		}
	}
	ix := index.NewAscending(uint32(n))
	k1, k2 := mk(m1, n/3), mk(m2, -1)
	g1, _ := GroupBy(ix, []column.Comparable{k1})
	snap := make([][]uint32, len(g1))
	for gi, g := range g1 {
		snap[gi] = append([]uint32{}, g...)
	}
	check(k1, g1, "first grouping")
	if strict {
		objs := make([]interface{}, len(g1))
		for gi := range g1 {
			objs[gi] = g1[gi]
		}
		vx.Freeze("groups", objs...)
		vx.FreezeGlobals()
	}
	w0, s0 := vx.FrozenWrites(), vx.SharedWrites()
	g2, _ := GroupBy(ix, []column.Comparable{k2})
	d2 := Distinct(ix, []column.Comparable{k2})
	w1, s1 := vx.FrozenWrites(), vx.SharedWrites()
	if strict {
		vx.Thaw()
		vx.Check(w1 == w0, "monitor: no store into memory that existed before the call (GroupBy on 128+ rows)")
		vx.Check(s1 == s0, "monitor: no mutation of package-level or other process-wide state (GroupBy on 128+ rows)")
	}
	check(k2, g2, "second grouping")
	vx.Check(len(d2) == len(g2), "Distinct after GroupBy: one row per key")
	vx.Check(len(g1) == len(snap), "earlier groups: same number")
	for gi := range snap {
		vx.Check(len(g1[gi]) == len(snap[gi]), "earlier groups keep their rows (length)")
		if len(g1[gi]) != len(snap[gi]) {
			return
		}
		for j := range snap[gi] {
			vx.Check(g1[gi][j] == snap[gi][j], "earlier groups keep their rows")
		}
	}
	vx.Reach("end")
}

func vxConcKey(v, hi int) int {
	for c := 0; c < hi; c++ {
		if v == c {
			return c
		}
	}
	vx.Assume(false)
	return 0
}
