package strings

// C18: like / ilike. Rune positions are either a symbolic ASCII byte (the
// solver covers all 128 values; upper-casing is arithmetic on the letter range)
// or one of a set of concrete code points whose upper-case form has a different
// byte length, C1 controls, 4-byte runes.

import (
	"regexp"
	"unicode"
	"unicode/utf8"

	"github.com/tobgu/qframe/internal/vx"
)

// alphabet of non-ASCII code points
var vxRunes = []rune{0x80, 'µ', 'ÿ', 'ı', 'ſ', 'ɐ', 'ⱥ', 0x10428, 0xFFFD}

type vxRune struct {
	ascii bool
	b     byte // symbolic when ascii
	r     rune // concrete otherwise
}

// vxPick makes one rune position: kind 0 = symbolic ASCII, kind k>0 = vxRunes[k-1].
func vxPick(kinds int) vxRune {
	k := vx.IntN(0, kinds-1)
	for c := 1; c < kinds; c++ {
		if k == c {
			return vxRune{r: vxRunes[c-1]}
		}
	}
	b := vx.Byte()
	vx.Assume(b < 0x80)
	return vxRune{ascii: true, b: b}
}

func vxEncode(rs []vxRune) string {
	var out []byte
	for _, r := range rs {
		if r.ascii {
			out = append(out, r.b)
		} else {
			out = utf8.AppendRune(out, r.r)
		}
	}
	return string(out)
}

// vxUpper is the reference: Unicode upper-casing rune by rune.
func vxUpper(rs []vxRune) string {
	var out []byte
	for _, r := range rs {
		if r.ascii {
			lower := vx.And('a' <= r.b, r.b <= 'z')
			out = append(out, byte(vx.IteInt(lower, int(r.b)-32, int(r.b))))
		} else {
			out = utf8.AppendRune(out, unicode.ToUpper(r.r))
		}
	}
	return string(out)
}

func vxHasAt(s, sub string, at int) bool {
	if at < 0 || at+len(sub) > len(s) {
		return false
	}
	return s[at:at+len(sub)] == sub
}

func vxContains(s, sub string) bool {
	r := false
	for at := 0; at+len(sub) <= len(s); at++ {
		r = vx.Or(r, vxHasAt(s, sub, at))
	}
	return r
}

func vxRefMatch(cell, pat string, pre, post bool) bool {
	switch {
	case pre && post:
		return vxContains(cell, pat)
	case pre:
		return vxHasAt(cell, pat, len(cell)-len(pat))
	case post:
		return vxHasAt(cell, pat, 0)
	}
	return cell == pat
}

func vxNotSpecial(rs []vxRune) {
	for _, r := range rs {
		if r.ascii {
			for _, sp := range []byte(`\.+*?()|[]{}^$%`) {
				vx.Assume(r.b != sp)
			}
		}
	}
}

// VX_C18_plain: non-regex patterns, one matcher used for two consecutive cells.
func VX_C18_plain() {
	cs := vx.ParamBool("cs")
	pre, post := vx.ParamBool("pre"), vx.ParamBool("post")
	np, nc, kinds := vx.ParamInt("np"), vx.ParamInt("nc"), vx.ParamInt("kinds")
	if vx.HasParam("runes") && vx.ParamStr("runes") == "fold" {
		// code points that are their own upper case but fold onto another letter (simple case folding
		// is coarser than equality after upper-casing), next to the letters they fold onto
		vxRunes = []rune{0x212A, 'k', 0x2126, 'ω', 0x1E9E, 'ß', 0x212B, 'å', 'K'}
	}
	pr := make([]vxRune, np)
	for k := range pr {
		pr[k] = vxPick(kinds)
	}
	vxNotSpecial(pr)
	body := vxEncode(pr)
	lit := ""
	if vx.HasParam("lit") {
		// a literal percent sign next to the wildcard: only ONE % at each end is the wildcard
		lit = vx.ParamStr("lit")
	}
	if lit == "pre" {
		body = "%" + body
	}
	if lit == "post" {
		body = body + "%"
	}
	pattern := body
	if pre {
		pattern = "%" + pattern
	}
	if post {
		pattern = pattern + "%"
	}
	if vx.HasParam("only") { // patterns "%" and "%%"
		pattern = vx.ParamStr("only")
		body = ""
		pre, post = true, true
		if pattern == "%%" {
			// the remainder after removing one % at each end is empty
			body = ""
		}
	}
	m, err := NewMatcher(pattern, cs)
	vx.Check(err == nil, "plain pattern: no error")
	if err != nil {
		return
	}
	want := body
	if !cs {
		want = vxUpper(pr)
		if lit == "pre" {
			want = "%" + want
		}
		if lit == "post" {
			want = want + "%"
		}
		if vx.HasParam("only") {
			want = ""
		}
	}
	for round := 0; round < 2; round++ {
		cr := make([]vxRune, nc)
		for k := range cr {
			cr[k] = vxPick(kinds)
		}
		cell := vxEncode(cr)
		subject := cell
		if !cs {
			subject = vxUpper(cr)
		}
		vx.Check(m.Matches(cell) == vxRefMatch(subject, want, pre, post), "Matches agrees with the wildcard/case rules")
	}
	vx.Reach("end")
}

// VX_C18_regex: patterns with metacharacters are handed to regexp anchored as documented.
func VX_C18_regex() {
	cs := vx.ParamBool("cs")
	pattern := vx.ParamStr("pattern")
	m, err := NewMatcher(pattern, cs)
	body := pattern
	pre := len(body) > 0 && body[0] == '%'
	post := len(body) > 0 && body[len(body)-1] == '%'
	if pre {
		body = body[1:]
	}
	if post && len(body) > 0 {
		body = body[:len(body)-1]
	}
	expect := body
	if !pre {
		expect = "^" + expect
	}
	if !post {
		expect = expect + "$"
	}
	if !cs {
		expect = "(?i)" + expect
	}
	_, cerr := regexp.Compile(expect)
	vx.Check((err != nil) == (cerr != nil), "compile error is propagated")
	if err != nil || cerr != nil {
		vx.Reach("end-invalid")
		return
	}
	ref := regexp.MustCompile(expect)
	cell := vx.Str(vx.ParamInt("nc"))
	for k := 0; k < len(cell); k++ {
		vx.Assume(cell[k] < 0x80)
	}
	vx.Check(m.Matches(cell) == ref.MatchString(cell), "regex pattern anchored as documented")
	for _, probe := range []string{"abc", "ABC", "xabcx", "a", "", "aXc", "(", "ab"} {
		vx.Check(m.Matches(probe) == ref.MatchString(probe), "regex pattern anchored as documented")
	}
	vx.Reach("end")
}

// VX_C18_regex_seq: the same regex pattern used for like and ilike one after the
// other (both orders): each matcher must be built for its own case rule.
func VX_C18_regex_seq() {
	pattern := vx.ParamStr("pattern")
	first := vx.ParamBool("first")
	cell := vx.Str(2)
	for k := 0; k < len(cell); k++ {
		vx.Assume(cell[k] < 0x80)
	}
	for _, cs := range []bool{first, !first, first} {
		m, err := NewMatcher(pattern, cs)
		vx.Check(err == nil, "valid regex pattern: no error")
		if err != nil {
			return
		}
		expect := "^" + pattern + "$"
		if !cs {
			expect = "(?i)" + expect
		}
		ref := regexp.MustCompile(expect)
		vx.Check(m.Matches(cell) == ref.MatchString(cell), "each matcher follows its own case rule")
		// concrete probes that tell the case rules apart (natively the real regexp decides)
		for _, probe := range []string{"abc", "ABC", "aBc", "Ab", "ax", "AX"} {
			vx.Check(m.Matches(probe) == ref.MatchString(probe), "each matcher follows its own case rule")
		}
	}
	vx.Reach("end")
}
