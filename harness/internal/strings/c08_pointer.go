package strings

import "github.com/tobgu/qframe/internal/vx"

// C08-C: Pointer packing round-trips for every offset < 2^35, len < 2^28.
func VX_C08_pointer() {
	off, ln, null := vx.Int(), vx.Int(), vx.Bool()
	vx.Assume(off >= 0 && off < 1<<35)
	vx.Assume(ln >= 0 && ln < 1<<28)
	p := NewPointer(off, ln, null)
	vx.Check(p.Offset() == off, "offset")
	vx.Check(p.Len() == ln, "len")
	vx.Check(p.IsNull() == null, "null")
	vx.Reach("end")
}
