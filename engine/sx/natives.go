package sx

// Native bridges: stdlib leaf functions are executed by the host when their
// operands are concrete; symbolic operands are concretised (forked) first.
// Also: models of the environment (hash, rand, regexp) and of formatting.

import (
	"bytes"
	"fmt"
	"go/token"
	"go/types"
	"math"
	"math/bits"
	"reflect"
	"regexp"
	"sort"
	"strconv"
	"strings"
	"unicode"
	"unicode/utf8"

	"golang.org/x/tools/go/ssa"
	"verif/engine/smt"
)

func smtFloatBits(f float64) uint64 { return math.Float64bits(f) }

// bridged is the table of host functions callable through the generic bridge.
var bridged = map[string]interface{}{
	"strconv.FormatUint":  strconv.FormatUint,
	"strconv.FormatBool":  strconv.FormatBool,
	"strconv.ParseUint":   strconv.ParseUint,
	"strconv.ParseBool":   strconv.ParseBool,
	"strconv.Quote":       strconv.Quote,
	"strings.Repeat":      strings.Repeat,
	"strings.TrimSpace":   strings.TrimSpace,
	"strings.EqualFold":   strings.EqualFold,
	"strings.Fields":      strings.Fields,
	"strings.Title":       strings.Title,
	"unicode.IsSpace":     unicode.IsSpace,
	"unicode.IsUpper":     unicode.IsUpper,
	"unicode.IsLower":     unicode.IsLower,
	"unicode.IsLetter":    unicode.IsLetter,
	"unicode.IsDigit":     unicode.IsDigit,
	"unicode.IsPrint":     unicode.IsPrint,
	"unicode.SimpleFold":  unicode.SimpleFold,
	"math.Sqrt":           math.Sqrt,
	"math.Pow":            math.Pow,
	"math.Floor":          math.Floor,
	"math.Ceil":           math.Ceil,
	"math.Trunc":          math.Trunc,
	"math.Log":            math.Log,
	"math.Log2":           math.Log2,
	"math.Log10":          math.Log10,
	"math.Exp":            math.Exp,
	"math.Mod":            math.Mod,
	"math.Inf":            math.Inf,
	"math.NaN":            math.NaN,
	"math.Round":          math.Round,
	"math.Ldexp":          math.Ldexp,
	"math.Float32bits":    math.Float32bits,
	"math.Float32frombits": math.Float32frombits,
}

// pureWhenConcrete lists interpretable functions that are nevertheless run on
// the host when every operand is concrete (speed; identical semantics).
var pureWhenConcrete = map[string]interface{}{
	"strings.ToUpper":      strings.ToUpper,
	"strings.ToLower":      strings.ToLower,
	"strings.Contains":     strings.Contains,
	"strings.HasPrefix":    strings.HasPrefix,
	"strings.HasSuffix":    strings.HasSuffix,
	"strings.Index":        strings.Index,
	"strings.IndexByte":    strings.IndexByte,
	"strings.IndexRune":    strings.IndexRune,
	"strings.IndexAny":     strings.IndexAny,
	"strings.LastIndex":    strings.LastIndex,
	"strings.Join":         strings.Join,
	"strings.TrimPrefix":   strings.TrimPrefix,
	"strings.TrimSuffix":   strings.TrimSuffix,
	"strings.Count":        strings.Count,
	"strings.Compare":      strings.Compare,
	"strings.ContainsRune": strings.ContainsRune,
	"strings.ContainsAny":  strings.ContainsAny,
	"strings.Split":        strings.Split,
	"strings.Replace":      strings.Replace,
	"strings.ReplaceAll":   strings.ReplaceAll,
	"bytes.Compare":        bytes.Compare,
	"bytes.Equal":          bytes.Equal,
	"bytes.IndexByte":      bytes.IndexByte,
	"bytes.Index":          bytes.Index,
	"bytes.HasPrefix":      bytes.HasPrefix,
	"bytes.HasSuffix":      bytes.HasSuffix,
	"bytes.Contains":       bytes.Contains,
	"bytes.Count":          bytes.Count,
	"unicode/utf8.RuneLen":              utf8.RuneLen,
	"unicode/utf8.ValidString":          utf8.ValidString,
	"unicode/utf8.Valid":                utf8.Valid,
	"unicode/utf8.RuneCountInString":    utf8.RuneCountInString,
	"unicode/utf8.RuneCount":            utf8.RuneCount,
	"unicode/utf8.DecodeRuneInString":   utf8.DecodeRuneInString,
	"unicode/utf8.DecodeRune":           utf8.DecodeRune,
	"unicode/utf8.DecodeLastRuneInString": utf8.DecodeLastRuneInString,
	"unicode/utf8.FullRune":             utf8.FullRune,
	"unicode/utf8.ValidRune":            utf8.ValidRune,
	"math/bits.Mul64":                   bits.Mul64,
	"math/bits.Add64":                   bits.Add64,
	"math/bits.Len32":                   bits.Len32,
	"math/bits.Len":                     bits.Len,
	"math/bits.TrailingZeros64":         bits.TrailingZeros64,
	"math/bits.TrailingZeros32":         bits.TrailingZeros32,
	"math/bits.LeadingZeros32":          bits.LeadingZeros32,
	"math/bits.OnesCount64":             bits.OnesCount64,
	"internal/bytealg.IndexByte":        bytes.IndexByte,
	"internal/bytealg.IndexByteString":  strings.IndexByte,
	"internal/bytealg.Count":            func(b []byte, c byte) int { return bytes.Count(b, []byte{c}) },
	"internal/bytealg.CountString":      func(s string, c byte) int { return strings.Count(s, string([]byte{c})) },
	"internal/bytealg.Equal":            bytes.Equal,
	"internal/bytealg.Compare":          bytes.Compare,
	"internal/bytealg.IndexString":      strings.Index,
	"internal/bytealg.Index":            bytes.Index,
	"internal/stringslite.Index":        strings.Index,
	"internal/stringslite.IndexByte":    strings.IndexByte,
	"internal/stringslite.HasPrefix":    strings.HasPrefix,
	"internal/stringslite.HasSuffix":    strings.HasSuffix,
}

func deepConcrete(v value) bool {
	switch x := v.(type) {
	case *Sym:
		return false
	case sstr:
		return allConcrete(x.b)
	case []value:
		for _, e := range x {
			if !deepConcrete(e) {
				return false
			}
		}
	case structure:
		for _, e := range x {
			if !deepConcrete(e) {
				return false
			}
		}
	case array:
		for _, e := range x {
			if !deepConcrete(e) {
				return false
			}
		}
	case iface:
		return deepConcrete(x.v)
	}
	return true
}

var errorIface = reflect.TypeOf((*error)(nil)).Elem()

// toHost converts an interpreter value to a host value of type rt
// (concretising symbolic parts).
func (i *interpreter) toHost(v value, rt reflect.Type) reflect.Value {
	switch rt.Kind() {
	case reflect.String:
		return reflect.ValueOf(i.concString(v)).Convert(rt)
	case reflect.Bool, reflect.Int, reflect.Int8, reflect.Int16, reflect.Int32, reflect.Int64,
		reflect.Uint, reflect.Uint8, reflect.Uint16, reflect.Uint32, reflect.Uint64, reflect.Uintptr, reflect.Float64, reflect.Float32:
		return reflect.ValueOf(i.concValue(v)).Convert(rt)
	case reflect.Slice:
		xs := v.([]value)
		out := reflect.MakeSlice(rt, len(xs), len(xs))
		for k := range xs {
			out.Index(k).Set(i.toHost(xs[k], rt.Elem()))
		}
		if xs == nil {
			return reflect.Zero(rt)
		}
		return out
	}
	panic(fmt.Sprintf("toHost: unsupported host type %v for %T", rt, v))
}

func (i *interpreter) fromHost(r reflect.Value) value {
	rt := r.Type()
	switch rt.Kind() {
	case reflect.String:
		return r.String()
	case reflect.Bool:
		return r.Bool()
	case reflect.Int:
		return int(r.Int())
	case reflect.Int8:
		return int8(r.Int())
	case reflect.Int16:
		return int16(r.Int())
	case reflect.Int32:
		return int32(r.Int())
	case reflect.Int64:
		return r.Int()
	case reflect.Uint:
		return uint(r.Uint())
	case reflect.Uint8:
		return uint8(r.Uint())
	case reflect.Uint16:
		return uint16(r.Uint())
	case reflect.Uint32:
		return uint32(r.Uint())
	case reflect.Uint64:
		return r.Uint()
	case reflect.Uintptr:
		return uintptr(r.Uint())
	case reflect.Float64:
		return r.Float()
	case reflect.Float32:
		return float32(r.Float())
	case reflect.Slice:
		if r.IsNil() {
			return []value(nil)
		}
		out := make([]value, r.Len())
		for k := range out {
			out[k] = i.fromHost(r.Index(k))
		}
		return out
	case reflect.Interface:
		if rt.Implements(errorIface) || rt == errorIface {
			if r.IsNil() {
				return iface{}
			}
			return iface{errorType, r.Interface().(error).Error()}
		}
	}
	panic(fmt.Sprintf("fromHost: unsupported host type %v", rt))
}

func (i *interpreter) bridge(hostFn interface{}, args []value) value {
	fv := reflect.ValueOf(hostFn)
	ft := fv.Type()
	in := make([]reflect.Value, len(args))
	for k := range args {
		var pt reflect.Type
		if ft.IsVariadic() && k >= ft.NumIn()-1 {
			pt = ft.In(ft.NumIn() - 1)
			if k == ft.NumIn()-1 {
				// SSA passes variadic as one slice
				s := i.toHost(args[k], pt)
				in = in[:k]
				for j := 0; j < s.Len(); j++ {
					in = append(in, s.Index(j))
				}
				break
			}
		} else {
			pt = ft.In(k)
		}
		in[k] = i.toHost(args[k], pt)
	}
	out := fv.Call(in)
	switch len(out) {
	case 0:
		return nil
	case 1:
		return i.fromHost(out[0])
	}
	t := make(tuple, len(out))
	for k := range out {
		t[k] = i.fromHost(out[k])
	}
	return t
}

func pkgPathOf(fn *ssa.Function) string {
	if fn.Pkg != nil {
		return fn.Pkg.Pkg.Path()
	}
	if o := fn.Object(); o != nil && o.Pkg() != nil {
		return o.Pkg().Path()
	}
	return ""
}

// callNative intercepts calls that are not executed from SSA.
func (i *interpreter) callNative(fr *frame, fn *ssa.Function, name string, args []value) (value, bool) {
	pp := pkgPathOf(fn)
	if strings.HasSuffix(pp, "/internal/vx") {
		return i.callVX(fr, fn, args), true
	}
	if strings.HasSuffix(pp, "/internal/vxsql") {
		return i.callVXSQL(fr, fn, args), true
	}
	if pp == "database/sql" {
		if r, ok := i.sqlMethod(fr, fn, name, args); ok {
			return r, true
		}
	}
	if h, ok := bridged[name]; ok {
		i.noteStub(name)
		return i.bridge(h, args), true
	}
	if h, ok := pureWhenConcrete[name]; ok {
		all := true
		for _, a := range args {
			if !deepConcrete(a) {
				all = false
				break
			}
		}
		if all {
			return i.bridge(h, args), true
		}
		if fn.Blocks == nil || strings.HasPrefix(name, "internal/bytealg.") || strings.HasPrefix(name, "internal/stringslite.") {
			return i.symBytealg(name, args), true
		}
		return nil, false
	}
	if m, ok := models[name]; ok {
		r := m(i, fr, args)
		if _, no := r.(notHandled); !no {
			i.noteStub(name)
			return r, true
		}
	}
	if pp == "regexp" && fn.Signature.Recv() != nil && len(args) > 0 {
		// any other method of a compiled regexp: run it on the host's regexp (string arguments are
		// concretised by forking); Go's regexp package is the stated oracle of C18
		if cell, ok := args[0].(*value); ok && cell != nil {
			if st, ok := (*cell).(structure); ok && len(st) == 1 {
				if pat, ok := st[0].(string); ok {
					if m := reflect.ValueOf(regexp.MustCompile(pat)).MethodByName(fn.Name()); m.IsValid() {
						rest := make([]value, len(args)-1)
						for k, a := range args[1:] {
							switch a.(type) {
							case sstr:
								rest[k] = i.concString(a)
							default:
								rest[k] = a
							}
						}
						i.noteStub(name)
						return i.bridge(m.Interface(), rest), true
					}
				}
			}
		}
	}
	if (pp == "fmt" || pp == "log" || pp == "os") && fn.Signature.Recv() == nil {
		i.noteStub(name)
		return i.fmtModel(fn, name, args), true
	}
	return nil, false
}

func (i *interpreter) noteStub(name string) {
	if i.res != nil && !i.inInit {
		i.res.Stubs[name]++
	}
}

type modelFn func(i *interpreter, fr *frame, args []value) value

var models map[string]modelFn

func init() {
	models = map[string]modelFn{
		"math.Float64bits": func(i *interpreter, fr *frame, a []value) value { return i.floatBits(a[0]) },
		"math.Float64frombits": func(i *interpreter, fr *frame, a []value) value {
			if s, ok := a[0].(*Sym); ok {
				return i.mk(i.tb.FFromBits(s.T), types.Float64)
			}
			return math.Float64frombits(a[0].(uint64))
		},
		"math.IsNaN": func(i *interpreter, fr *frame, a []value) value {
			if s, ok := a[0].(*Sym); ok {
				return i.mk(i.tb.FIsNaN(s.T), types.Bool)
			}
			return math.IsNaN(a[0].(float64))
		},
		"math.IsInf": func(i *interpreter, fr *frame, a []value) value {
			f := a[0]
			sign := i.concInt(a[1])
			if s, ok := f.(*Sym); ok {
				b := i.tb
				pinf := b.FCmp(smt.OFEq, s.T, b.FPConst(math.Inf(1)))
				ninf := b.FCmp(smt.OFEq, s.T, b.FPConst(math.Inf(-1)))
				switch {
				case sign > 0:
					return i.mk(pinf, types.Bool)
				case sign < 0:
					return i.mk(ninf, types.Bool)
				}
				return i.mk(b.Or(pinf, ninf), types.Bool)
			}
			return math.IsInf(f.(float64), int(sign))
		},
		"math.Abs": func(i *interpreter, fr *frame, a []value) value {
			if s, ok := a[0].(*Sym); ok {
				return i.mk(i.tb.FAbs(s.T), types.Float64)
			}
			return math.Abs(a[0].(float64))
		},
		"math.Copysign": func(i *interpreter, fr *frame, a []value) value {
			if !isSym(a[0]) && !isSym(a[1]) {
				return math.Copysign(a[0].(float64), a[1].(float64))
			}
			b := i.tb
			xb, yb := i.lift(i.floatBits(a[0])), i.lift(i.floatBits(a[1]))
			sign := b.BVConst(1<<63, 64)
			r := b.BVBin(smt.OBOr, b.BVBin(smt.OBAnd, xb, b.BVNot(sign)), b.BVBin(smt.OBAnd, yb, sign))
			return i.mk(b.FFromBits(r), types.Float64)
		},
		"math.Max": func(i *interpreter, fr *frame, a []value) value {
			if !isSym(a[0]) && !isSym(a[1]) {
				return math.Max(a[0].(float64), a[1].(float64))
			}
			return i.fminmax(a[0], a[1], true)
		},
		"math.Min": func(i *interpreter, fr *frame, a []value) value {
			if !isSym(a[0]) && !isSym(a[1]) {
				return math.Min(a[0].(float64), a[1].(float64))
			}
			return i.fminmax(a[0], a[1], false)
		},
		// hash and randomness: uninterpreted / unconstrained
		"github.com/tobgu/qframe/internal/hash.HashBytes": func(i *interpreter, fr *frame, a []value) value {
			bs := a[0].([]value)
			seed := a[1]
			if i.concreteMode {
				return i.concreteUFLookup("H"+strconv.Itoa(len(bs)), append(append([]value{}, bs...), seed))
			}
			var ts []*smt.Term
			for _, x := range bs {
				ts = append(ts, i.lift(x))
			}
			ts = append(ts, i.lift(seed))
			nm := fmt.Sprintf("H%d", len(bs))
			var r *smt.Term
			if w := wordOfBytes(ts[:len(bs)]); w != nil {
				// the 8 bytes are the little-endian image of one 64-bit term: give the
				// solver a function of the word (equivalent, far easier congruence reasoning)
				r = i.tb.UF(nm+"w", smt.BV(64), w, ts[len(bs)])
			} else {
				r = i.tb.UF(nm, smt.BV(64), ts...)
			}
			i.ps.ufApps = append(i.ps.ufApps, ufApp{Name: nm, Args: ts, Res: r})
			if i.ps.hashBits > 0 {
				low := i.tb.Extract(r, i.ps.hashBits-1, 0)
				var alts []*smt.Term
				for _, a := range i.ps.hashAllowed {
					alts = append(alts, i.tb.Eq(low, i.tb.BVConst(a, i.ps.hashBits)))
				}
				i.sol.Assert(i.tb.Or(alts...))
			}
			return i.mk(r, types.Uint64)
		},
		"math/rand.Uint64": func(i *interpreter, fr *frame, a []value) value { return i.freshEnv(types.Uint64) },
		"math/rand.Uint32": func(i *interpreter, fr *frame, a []value) value { return i.freshEnv(types.Uint32) },
		"math/rand.Int63":  func(i *interpreter, fr *frame, a []value) value {
			v := i.freshEnv(types.Uint64)
			if s, ok := v.(*Sym); ok {
				return i.mk(i.tb.BVBin(smt.OLShr, s.T, i.tb.BVConst(1, 64)), types.Int64)
			}
			return int64(v.(uint64) >> 1)
		},
		"sort.Strings": func(i *interpreter, fr *frame, a []value) value {
			xs := a[0].([]value)
			all := true
			for _, x := range xs {
				if !deepConcrete(x) {
					all = false
				}
			}
			if all {
				ss := make([]string, len(xs))
				for k := range xs {
					ss[k] = i.concString(xs[k])
				}
				sort.Strings(ss)
				for k := range xs {
					i.writeCell(&xs[k], ss[k])
				}
				return nil
			}
			// insertion sort, branching on the symbolic comparisons
			for k := 1; k < len(xs); k++ {
				for j := k; j > 0; j-- {
					if !i.branch(i.strLtTerm(xs[j], xs[j-1])) {
						break
					}
					t := xs[j]
					i.writeCell(&xs[j], xs[j-1])
					i.writeCell(&xs[j-1], t)
				}
			}
			return nil
		},
		"sort.Ints": func(i *interpreter, fr *frame, a []value) value {
			xs := a[0].([]value)
			ss := make([]int, len(xs))
			for k := range xs {
				ss[k] = int(i.concInt(xs[k]))
			}
			sort.Ints(ss)
			for k := range xs {
				i.writeCell(&xs[k], ss[k])
			}
			return nil
		},
		"reflect.TypeOf": func(i *interpreter, fr *frame, a []value) value { return ext۰reflect۰TypeOf(fr, a) },
		"internal/reflectlite.TypeOf": func(i *interpreter, fr *frame, a []value) value { return ext۰reflect۰TypeOf(fr, a) },
		"errors.Is": func(i *interpreter, fr *frame, a []value) value {
			x, y := a[0].(iface), a[1].(iface)
			for depth := 0; depth < 16 && x.t != nil; depth++ {
				if sameType(x.t, y.t) && !hasSym(x.v) && !hasSym(y.v) && equals(x.t, x.v, y.v) {
					return true
				}
				// follow the Unwrap() error chain of the real error value
				sel := i.prog.MethodSets.MethodSet(x.t).Lookup(nil, "Unwrap")
				if sel == nil {
					break
				}
				sig, _ := sel.Type().(*types.Signature)
				if sig == nil || sig.Results().Len() != 1 || !types.Identical(sig.Results().At(0).Type(), types.Universe.Lookup("error").Type()) {
					break
				}
				fn := i.prog.MethodValue(sel)
				if fn == nil {
					break
				}
				r, ok := call(i, fr, token.NoPos, fn, []value{x.v}).(iface)
				if !ok {
					break
				}
				x = r
			}
			return false
		},
		"(*encoding/csv.Writer).Write": func(i *interpreter, fr *frame, a []value) value {
			if !i.ps.csvModel {
				return notHandled{}
			}
			rec := append([]value{}, a[1].([]value)...)
			i.ps.csvRecords = append(i.ps.csvRecords, rec)
			return iface{}
		},
		"(*encoding/csv.Writer).Flush": func(i *interpreter, fr *frame, a []value) value {
			if !i.ps.csvModel {
				return notHandled{}
			}
			return nil
		},
		"(*encoding/csv.Writer).Error": func(i *interpreter, fr *frame, a []value) value {
			if !i.ps.csvModel {
				return notHandled{}
			}
			return iface{}
		},
		"encoding/json.NewDecoder": func(i *interpreter, fr *frame, a []value) value {
			if i.ps.jsonFactory != nil {
				i.ps.jsonStream = call(i, fr, token.NoPos, i.ps.jsonFactory, []value{a[0]})
				return zeroPtrOf(types.NewPointer(i.prog.ImportedPackage("encoding/json").Type("Decoder").Type()))
			}
			if i.ps.jsonDecode == nil {
				return notHandled{}
			}
			i.ps.jsonReader = a[0]
			return zeroPtrOf(types.NewPointer(i.prog.ImportedPackage("encoding/json").Type("Decoder").Type()))
		},
		"(*encoding/json.Decoder).Token": func(i *interpreter, fr *frame, a []value) value {
			if i.ps.jsonStream == nil {
				return notHandled{}
			}
			return i.callStream(fr, "Token")
		},
		"(*encoding/json.Decoder).More": func(i *interpreter, fr *frame, a []value) value {
			if i.ps.jsonStream == nil {
				return notHandled{}
			}
			return i.callStream(fr, "More")
		},
		"(*encoding/json.Decoder).Decode": func(i *interpreter, fr *frame, a []value) value {
			if i.ps.jsonStream != nil {
				return i.callStream(fr, "Decode", a[1])
			}
			if i.ps.jsonDecode == nil {
				return notHandled{}
			}
			// the harness's reference decoder stands in for encoding/json (assumed to follow RFC 8259
			// and its documentation); its result has the destination's type
			r := call(i, fr, token.NoPos, i.ps.jsonDecode, []value{i.ps.jsonReader}).(tuple)
			if e := r[1].(iface); e.t != nil {
				return e
			}
			dst := a[1].(iface).v.(*value)
			i.writeCell(dst, r[0].(iface).v)
			return iface{}
		},
		"unicode.ToUpper": func(i *interpreter, fr *frame, a []value) value { return i.caseModel(a[0], true) },
		"unicode.ToLower": func(i *interpreter, fr *frame, a []value) value { return i.caseModel(a[0], false) },
		"regexp.QuoteMeta": func(i *interpreter, fr *frame, a []value) value {
			if deepConcrete(a[0]) {
				return regexp.QuoteMeta(i.concString(a[0]))
			}
			// symbolic: the result differs from the input iff some byte is special
			b := i.tb
			var any []*smt.Term
			for _, c := range strBytes(a[0]) {
				t := i.lift(c)
				for _, sp := range []byte(`\.+*?()|[]{}^$`) {
					any = append(any, b.Eq(t, b.BVConst(uint64(sp), 8)))
				}
			}
			if i.branch(b.Or(any...)) {
				return regexp.QuoteMeta(i.concString(a[0]))
			}
			return a[0]
		},
		"regexp.Compile": func(i *interpreter, fr *frame, a []value) value {
			pat := i.concString(a[0])
			i.ps.lastRegexp = pat
			if _, err := regexp.Compile(pat); err != nil {
				return tuple{(*value)(nil), iface{errorType, err.Error()}}
			}
			var cell value = structure{pat}
			return tuple{&cell, iface{}}
		},
		"regexp.MustCompile": func(i *interpreter, fr *frame, a []value) value {
			pat := i.concString(a[0])
			if _, err := regexp.Compile(pat); err != nil {
				panic(targetPanic{iface{errorType, "regexp: Compile: " + err.Error()}})
			}
			var cell value = structure{pat}
			return &cell
		},
		"(*regexp.Regexp).MatchString": func(i *interpreter, fr *frame, a []value) value {
			// Go's regexp is the stated oracle: matching is an uninterpreted predicate of
			// (compiled pattern, subject); the harness reference uses the same function.
			pat := (*a[0].(*value)).(structure)[0].(string)
			if deepConcrete(a[1]) {
				// concrete subject: the host's regexp decides (exact); the uninterpreted predicate is
				// pinned to that answer at this point so that a symbolic subject that may equal this
				// string gets the same verdict (congruence)
				res := regexp.MustCompile(pat).MatchString(i.concString(a[1]))
				if !i.concreteMode {
					u := i.ufCall("re:"+pat, []value{iface{types.Typ[types.String], a[1]}}, types.Bool)
					if us, ok := u.(*Sym); ok {
						if res {
							i.assume(us)
						} else {
							i.assume(i.mk(i.tb.Not(us.T), types.Bool))
						}
					}
				}
				return res
			}
			return i.ufCall("re:"+pat, []value{iface{types.Typ[types.String], a[1]}}, types.Bool)
		},
		"math/bits.Len64": func(i *interpreter, fr *frame, a []value) value { return i.len64(a[0]) },
		"math/bits.LeadingZeros64": func(i *interpreter, fr *frame, a []value) value {
			n := i.len64(a[0])
			if s, ok := n.(*Sym); ok {
				return i.mk(i.tb.BVBin(smt.OSub, i.tb.BVConst(64, 64), s.T), types.Int)
			}
			return 64 - n.(int)
		},
		"internal/abi.NoEscape": func(i *interpreter, fr *frame, a []value) value { return a[0] },
		// sync.Map: modelled as an ordered map kept beside the receiver. Every
		// mutation of a sync.Map is shared mutable state by construction: it is
		// reported to the package-level-state monitor.
		"(*sync.Map).Load": func(i *interpreter, fr *frame, a []value) value {
			m := i.syncMap(a[0], false)
			if m != nil {
				if v, ok := m.lookup(i.concKey(a[1])); ok {
					return tuple{v, true}
				}
			}
			return tuple{iface{}, false}
		},
		"(*sync.Map).Store": func(i *interpreter, fr *frame, a []value) value {
			i.noteSharedWrite("sync.Map.Store")
			i.mapInsert(i.syncMap(a[0], true), i.concKey(a[1]), a[2])
			return nil
		},
		"(*sync.Map).LoadOrStore": func(i *interpreter, fr *frame, a []value) value {
			m := i.syncMap(a[0], true)
			k := i.concKey(a[1])
			if v, ok := m.lookup(k); ok {
				return tuple{v, true}
			}
			i.noteSharedWrite("sync.Map.LoadOrStore")
			i.mapInsert(m, k, a[2])
			return tuple{a[2], false}
		},
		"(*sync.Map).Delete": func(i *interpreter, fr *frame, a []value) value {
			if m := i.syncMap(a[0], false); m != nil {
				i.noteSharedWrite("sync.Map.Delete")
				i.mapDelete(m, i.concKey(a[1]))
			}
			return nil
		},
		// sync.Mutex / RWMutex: sequentially no-ops. While a lock is held, stores to package-level state
		// are synchronised writes: they are recorded but not counted by the write monitor (the reduced
		// form of C11 does not decide them; stores to memory of frames are counted as always).
		"(*sync.Mutex).Lock":      func(i *interpreter, fr *frame, a []value) value { i.lockDepth++; return nil },
		"(*sync.Mutex).Unlock":    func(i *interpreter, fr *frame, a []value) value { i.lockDepth--; return nil },
		"(*sync.Mutex).TryLock":   func(i *interpreter, fr *frame, a []value) value { i.lockDepth++; return true },
		"(*sync.RWMutex).Lock":    func(i *interpreter, fr *frame, a []value) value { i.lockDepth++; return nil },
		"(*sync.RWMutex).Unlock":  func(i *interpreter, fr *frame, a []value) value { i.lockDepth--; return nil },
		"(*sync.RWMutex).RLock":   func(i *interpreter, fr *frame, a []value) value { return nil },
		"(*sync.RWMutex).RUnlock": func(i *interpreter, fr *frame, a []value) value { return nil },
		"(*sync.Once).Do": func(i *interpreter, fr *frame, a []value) value {
			cell := a[0].(*value)
			if i.onceDone == nil {
				i.onceDone = map[*value]bool{}
			}
			if !i.onceDone[cell] {
				i.onceDone[cell] = true
				i.noteSharedWrite("sync.Once.Do")
				call(i, fr, token.NoPos, a[1], nil)
			}
			return nil
		},
		"(*sync.Pool).Get": func(i *interpreter, fr *frame, a []value) value {
			// a pooled object if one was Put earlier on this path (as a single goroutine sees it),
			// else New. The object stops being "released" (see Put).
			if i.ps != nil {
				// as the runtime does for one goroutine: a private slot (index 0) that is filled by the first
				// Put and taken first by Get, then the shared stack (last in, first out)
				if st := i.ps.pools[a[0].(*value)]; len(st) > 0 && (st[0] != nil || len(st) > 1) {
					var x value
					if st[0] != nil {
						x, st[0] = st[0], nil
					} else {
						x = st[len(st)-1]
						st = st[:len(st)-1]
					}
					i.ps.pools[a[0].(*value)] = st
					un := map[*value]string{}
					old := i.ps.frozen
					i.ps.frozen = un
					i.freezeWalk(x, "", map[interface{}]bool{})
					i.ps.frozen = old
					for c := range un {
						delete(i.ps.released, c)
					}
					return x
				}
			}
			// an empty pool: call New if set
			p := (*a[0].(*value)).(structure)
			for _, f := range p {
				switch fn := f.(type) {
				case *closure:
					if fn != nil {
						return call(i, fr, token.NoPos, fn, nil)
					}
				case *ssa.Function:
					if fn != nil {
						return call(i, fr, token.NoPos, fn, nil)
					}
				}
			}
			return iface{}
		},
		"(*sync.Pool).Put": func(i *interpreter, fr *frame, a []value) value {
			// From here on the object belongs to the pool: any other goroutine may Get and modify it.
			// Every cell reachable from it is marked released; a later load or store of such a cell by
			// the same call is counted as a mutation of process-wide state (use after release).
			if i.ps != nil && !i.inInit {
				if i.ps.released == nil {
					i.ps.released = map[*value]string{}
				}
				old := i.ps.frozen
				i.ps.frozen = i.ps.released
				i.freezeWalk(a[1], "object handed to sync.Pool.Put", map[interface{}]bool{})
				i.ps.frozen = old
				if i.ps.pools == nil {
					i.ps.pools = map[*value][]value{}
				}
				st := i.ps.pools[a[0].(*value)]
				if len(st) == 0 {
					st = []value{nil}
				}
				if st[0] == nil {
					st[0] = a[1]
				} else {
					st = append(st, a[1])
				}
				i.ps.pools[a[0].(*value)] = st
			}
			return nil
		},
		"sort.Slice":       func(i *interpreter, fr *frame, a []value) value { return i.sortSlice(fr, a[0], a[1]) },
		"sort.SliceStable": func(i *interpreter, fr *frame, a []value) value { return i.sortSlice(fr, a[0], a[1]) },
		"internal/bytealg.MakeNoZero": func(i *interpreter, fr *frame, a []value) value {
			n := i.concInt(a[0])
			out := make([]value, n)
			for k := range out {
				out[k] = uint8(0)
			}
			return out
		},
		"sync.(*Mutex).Lock":   func(i *interpreter, fr *frame, a []value) value { return nil },
		"sync.(*Mutex).Unlock": func(i *interpreter, fr *frame, a []value) value { return nil },
		"sync.(*RWMutex).Lock":    func(i *interpreter, fr *frame, a []value) value { return nil },
		"sync.(*RWMutex).Unlock":  func(i *interpreter, fr *frame, a []value) value { return nil },
		"sync.(*RWMutex).RLock":   func(i *interpreter, fr *frame, a []value) value { return nil },
		"sync.(*RWMutex).RUnlock": func(i *interpreter, fr *frame, a []value) value { return nil },
		"strconv.AppendInt": func(i *interpreter, fr *frame, a []value) value {
			return i.appendValues(a[0].([]value), strBytes(i.fmtInt(a[1], a[2])), types.Typ[types.Byte])
		},
		"strconv.FormatInt": func(i *interpreter, fr *frame, a []value) value { return i.fmtInt(a[0], a[1]) },
		"strconv.Itoa":      func(i *interpreter, fr *frame, a []value) value { return i.fmtInt(a[0], 10) },
		"strconv.FormatFloat": func(i *interpreter, fr *frame, a []value) value {
			return i.fmtFloat(a[0], a[1], a[2], a[3])
		},
		"github.com/tobgu/qframe/internal/ryu.AppendFloat64f": func(i *interpreter, fr *frame, a []value) value {
			if !isSym(a[1]) || i.ps.realDigits {
				return notHandled{}
			}
			return i.appendValues(a[0].([]value), strBytes(i.fmtFloat(a[1], uint8('f'), -1, 64)), types.Typ[types.Byte])
		},
		"strconv.Atoi": func(i *interpreter, fr *frame, a []value) value {
			v, err := i.parseIntModel(a[0])
			return tuple{v, err}
		},
		"strconv.ParseInt": func(i *interpreter, fr *frame, a []value) value {
			if deepConcrete(a[0]) {
				return i.bridge(strconv.ParseInt, a)
			}
			v, err := i.parseIntModel(a[0])
			if s, ok := v.(*Sym); ok {
				v = &Sym{T: s.T, K: types.Int64}
			} else {
				v = int64(v.(int))
			}
			return tuple{v, err}
		},
		"strconv.ParseFloat": func(i *interpreter, fr *frame, a []value) value {
			v, err := i.parseFloatModel(a[0], a[1])
			return tuple{v, err}
		},
		"strconv.AppendBool": func(i *interpreter, fr *frame, a []value) value {
			s := strconv.FormatBool(i.concValue(a[1]).(bool))
			return i.appendValues(a[0].([]value), strBytes(s), types.Typ[types.Byte])
		},
		"strconv.AppendFloat": func(i *interpreter, fr *frame, a []value) value {
			return i.appendValues(a[0].([]value), strBytes(i.fmtFloat(a[1], a[2], a[3], a[4])), types.Typ[types.Byte])
		},
		"strconv.AppendQuote": func(i *interpreter, fr *frame, a []value) value {
			s := strconv.Quote(i.concString(a[1]))
			return i.appendValues(a[0].([]value), strBytes(s), types.Typ[types.Byte])
		},
	}
}

func (i *interpreter) fminmax(x, y value, isMax bool) value {
	// math.Max/Min semantics: NaN if either NaN; Inf dominates; ±0 ordering.
	b := i.tb
	tx, ty := i.lift(x), i.lift(y)
	nan := b.Or(b.FIsNaN(tx), b.FIsNaN(ty))
	var pick *smt.Term
	if isMax {
		pick = b.FCmp(smt.OFLT, ty, tx) // x > y
	} else {
		pick = b.FCmp(smt.OFLT, tx, ty)
	}
	// equal case incl. signed zeros: choose by sign bit
	xb, yb := i.lift(i.floatBits(x)), i.lift(i.floatBits(y))
	eq := b.FCmp(smt.OFEq, tx, ty)
	var zsel *smt.Term
	if isMax {
		zsel = b.BVCmp(smt.OULE, xb, yb) // smaller bits = +0 first
	} else {
		zsel = b.BVCmp(smt.OULE, yb, xb)
	}
	r := b.Ite(eq, b.Ite(zsel, tx, ty), b.Ite(pick, tx, ty))
	r = b.Ite(nan, b.FPConst(math.NaN()), r)
	return i.mk(r, types.Float64)
}

// symBytealg implements the assembly-backed byte primitives on symbolic data.
func (i *interpreter) symBytealg(name string, args []value) value {
	b := i.tb
	bytesOf := func(v value) []value {
		if isStr(v) {
			return strBytes(v)
		}
		return v.([]value)
	}
	switch name {
	case "internal/bytealg.IndexByte", "internal/bytealg.IndexByteString", "bytes.IndexByte", "strings.IndexByte", "internal/stringslite.IndexByte":
		bs := bytesOf(args[0])
		c := i.lift(args[1])
		for k, x := range bs {
			if i.branch(b.Eq(i.lift(x), c)) {
				return k
			}
		}
		return -1
	case "internal/bytealg.Count", "internal/bytealg.CountString":
		bs := bytesOf(args[0])
		c := i.lift(args[1])
		n := 0
		for _, x := range bs {
			if i.branch(b.Eq(i.lift(x), c)) {
				n++
			}
		}
		return n
	case "internal/bytealg.Equal", "bytes.Equal":
		x, y := bytesOf(args[0]), bytesOf(args[1])
		return i.mk(i.strEqTerm(sstr{x}, sstr{y}), types.Bool)
	case "internal/bytealg.Compare", "bytes.Compare", "strings.Compare":
		x, y := sstr{bytesOf(args[0])}, sstr{bytesOf(args[1])}
		if i.branch(i.strLtTerm(x, y)) {
			return -1
		}
		if i.branch(i.strLtTerm(y, x)) {
			return 1
		}
		return 0
	case "internal/bytealg.IndexString", "internal/bytealg.Index", "strings.Index", "bytes.Index", "internal/stringslite.Index":
		x, y := bytesOf(args[0]), bytesOf(args[1])
		for k := 0; k+len(y) <= len(x); k++ {
			if i.branch(i.strEqTerm(sstr{x[k : k+len(y)]}, sstr{y})) {
				return k
			}
		}
		return -1
	case "internal/stringslite.HasPrefix", "strings.HasPrefix", "bytes.HasPrefix":
		x, y := bytesOf(args[0]), bytesOf(args[1])
		if len(y) > len(x) {
			return false
		}
		return i.mk(i.strEqTerm(sstr{x[:len(y)]}, sstr{y}), types.Bool)
	case "internal/stringslite.HasSuffix", "strings.HasSuffix", "bytes.HasSuffix":
		x, y := bytesOf(args[0]), bytesOf(args[1])
		if len(y) > len(x) {
			return false
		}
		return i.mk(i.strEqTerm(sstr{x[len(x)-len(y):]}, sstr{y}), types.Bool)
	}
	panic("symBytealg: no symbolic implementation for " + name)
}

// fmtModel: formatting is never the subject of a property; operands are
// rendered when concrete and replaced by a placeholder otherwise.
func (i *interpreter) fmtModel(fn *ssa.Function, name string, args []value) value {
	render := func(v value) interface{} {
		if it, ok := v.(iface); ok {
			v = it.v
			if it.t == nil {
				return nil
			}
			if it.t == errorType {
				return fmt.Sprint(v)
			}
		}
		switch x := v.(type) {
		case *Sym:
			return "<sym>"
		case sstr:
			if allConcrete(x.b) {
				return bytesToGo(x.b)
			}
			return "<symstr>"
		case bool, int, int8, int16, int32, int64, uint, uint8, uint16, uint32, uint64, uintptr, float32, float64, string:
			return x
		case rtype:
			if x.t == nil {
				return "<nil>"
			}
			return x.t.String()
		case nil:
			return nil
		}
		return fmt.Sprintf("<%T>", v)
	}
	varargs := func(v value) []interface{} {
		var out []interface{}
		for _, a := range v.([]value) {
			out = append(out, render(a))
		}
		return out
	}
	safeSprintf := func(f string, a []interface{}) (s string) {
		defer func() {
			if recover() != nil {
				s = f
			}
		}()
		return fmt.Sprintf(f, a...)
	}
	switch name {
	case "fmt.Sprintf":
		return safeSprintf(i.concString(args[0]), varargs(args[1]))
	case "fmt.Errorf":
		return iface{errorType, safeSprintf(i.concString(args[0]), varargs(args[1]))}
	case "fmt.Sprint":
		return fmt.Sprint(varargs(args[0])...)
	case "fmt.Sprintln":
		return fmt.Sprintln(varargs(args[0])...)
	case "fmt.Println", "fmt.Printf", "fmt.Print", "log.Printf", "log.Println", "log.Print":
		if fn.Signature.Results().Len() == 2 {
			return tuple{0, iface{}}
		}
		return nil
	case "fmt.Fprintf", "fmt.Fprintln", "fmt.Fprint":
		panic("fmt.Fprint* to an interpreted writer is not modelled")
	}
	panic("no model for " + name)
}

func (i *interpreter) concreteUFLookup(name string, args []value) value {
	var key []uint64
	for _, a := range args {
		key = append(key, i.lift(a).V)
	}
outer:
	for _, e := range i.concreteUF {
		if e.Name != name || len(e.Args) != len(key) {
			continue
		}
		for k := range key {
			if e.Args[k] != key[k] {
				continue outer
			}
		}
		return e.Res
	}
	// deterministic default: FNV of the key
	h := uint64(1469598103934665603)
	for _, k := range key {
		h ^= k
		h *= 1099511628211
	}
	return h
}

// freshEnv is an unconstrained environment value (randomness): not part of the
// harness input vector, so native replays cannot pin it.
func (i *interpreter) freshEnv(k types.BasicKind) value {
	if i.concreteMode {
		i.envCount++
		return concreteOfKind(k, uint64(i.envCount)*0x9e3779b97f4a7c15&maskOf(k))
	}
	return i.mk(i.tb.Var("env", smt.BV(kindWidth(k))), k)
}

// wordOfBytes returns t if bs are exactly extract(7,0), extract(15,8), ... of one 64-bit term t.
func wordOfBytes(bs []*smt.Term) *smt.Term {
	if len(bs) != 8 {
		return nil
	}
	var w *smt.Term
	for k, b := range bs {
		if b.Op != smt.OExtract || b.I != 8*k+7 || b.J != 8*k || b.Args[0].Sort.W != 64 {
			return nil
		}
		if w == nil {
			w = b.Args[0]
		} else if w != b.Args[0] {
			return nil
		}
	}
	return w
}

type notHandled struct{}

// ---- number text model (DESIGN 3.4) ---------------------------------------
// A symbolic number is rendered as a fixed-width injective text: one tag byte
// ('i' for integers, 'f' for floats) followed by 16 letters 'a'..'p', one per
// nibble (most significant first). The parse functions invert exactly that and
// reject every other symbolic text. Concrete operands use the real strconv.

func (i *interpreter) nibbleText(tag byte, t *smt.Term) value {
	b := i.tb
	out := make([]value, 17)
	out[0] = tag
	for k := 0; k < 16; k++ {
		nib := b.Extract(t, 63-4*k, 60-4*k)
		out[k+1] = i.mk(b.BVBin(smt.OAdd, b.ZExt(nib, 8), b.BVConst('a', 8)), types.Uint8)
	}
	return mkStr(out)
}

func (i *interpreter) fmtInt(x, base value) value {
	if s, ok := x.(*Sym); ok {
		i.noteStub("number-text-model(int)")
		return i.nibbleText('i', i.tb.SExt(s.T, 64))
	}
	return strconv.FormatInt(asInt64(x), int(i.concInt(base)))
}

func (i *interpreter) fmtFloat(x, f, prec, bits value) value {
	if s, ok := x.(*Sym); ok {
		i.noteStub("number-text-model(float)")
		return i.nibbleText('f', i.floatBitsTerm(s.T))
	}
	return strconv.FormatFloat(x.(float64), i.concValue(f).(uint8), int(i.concInt(prec)), int(i.concInt(bits)))
}

// parseModel recognises tag + 16 nibble letters; returns the 64-bit term and a
// condition under which the text is well-formed.
func (i *interpreter) parseModel(tag byte, s value) (*smt.Term, *smt.Term) {
	b := i.tb
	bs := strBytes(s)
	if len(bs) != 17 {
		return nil, b.False
	}
	ok := b.Eq(i.lift(bs[0]), b.BVConst(uint64(tag), 8))
	var w *smt.Term
	for k := 1; k < 17; k++ {
		c := i.lift(bs[k])
		ok = b.And(ok, b.BVCmp(smt.OULE, b.BVConst('a', 8), c), b.BVCmp(smt.OULE, c, b.BVConst('p', 8)))
		nib := b.Extract(b.BVBin(smt.OSub, c, b.BVConst('a', 8)), 3, 0)
		if w == nil {
			w = nib
		} else {
			w = b.Concat(w, nib)
		}
	}
	return w, ok
}

func (i *interpreter) parseIntModel(s value) (value, value) {
	if deepConcrete(s) {
		v, err := strconv.Atoi(i.concString(s))
		if err != nil {
			return v, iface{errorType, err.Error()}
		}
		return v, iface{}
	}
	if strLen(s) != 17 {
		// not a number-text token: decide by the real strconv on every feasible content
		v, err := strconv.Atoi(i.concString(s))
		if err != nil {
			return v, iface{errorType, err.Error()}
		}
		return v, iface{}
	}
	i.noteStub("number-text-model(parse int)")
	w, ok := i.parseModel('i', s)
	if w != nil && i.branch(ok) {
		return i.mk(w, types.Int), iface{}
	}
	return 0, iface{errorType, "strconv.Atoi: parsing symbolic text: invalid syntax"}
}

func (i *interpreter) parseFloatModel(s, bits value) (value, value) {
	if deepConcrete(s) {
		v, err := strconv.ParseFloat(i.concString(s), int(i.concInt(bits)))
		if err != nil {
			return v, iface{errorType, err.Error()}
		}
		return v, iface{}
	}
	if strLen(s) != 17 {
		v, err := strconv.ParseFloat(i.concString(s), int(i.concInt(bits)))
		if err != nil {
			return v, iface{errorType, err.Error()}
		}
		return v, iface{}
	}
	i.noteStub("number-text-model(parse float)")
	w, ok := i.parseModel('f', s)
	if w != nil && i.branch(ok) {
		return i.mk(i.tb.FFromBits(w), types.Float64), iface{}
	}
	// the decimal text of an integer is also the text of a float: the equal-valued one
	// (exact below 2^53, else the nearest float, as strconv rounds)
	if wi, oki := i.parseModel('i', s); wi != nil && i.branch(oki) {
		if sv, isSym := i.mk(wi, types.Int).(*Sym); isSym {
			return i.symConv(types.Float64, sv), iface{}
		}
		return float64(int64(wi.V)), iface{}
	}
	return 0.0, iface{errorType, "strconv.ParseFloat: parsing symbolic text: invalid syntax"}
}

// caseModel: unicode.ToUpper/ToLower. ASCII stays symbolic (arithmetic on the
// letter range), anything else is concretised and mapped by the host's unicode tables.
func (i *interpreter) caseModel(r value, upper bool) value {
	s, ok := r.(*Sym)
	if !ok {
		if upper {
			return unicode.ToUpper(r.(int32))
		}
		return unicode.ToLower(r.(int32))
	}
	b := i.tb
	if i.branch(b.BVCmp(smt.OULT, s.T, b.BVConst(0x80, 32))) {
		lo, hi, delta := uint64('a'), uint64('z'), uint64(0xffffffe0) // -32
		if !upper {
			lo, hi, delta = 'A', 'Z', 32
		}
		in := b.And(b.BVCmp(smt.OULE, b.BVConst(lo, 32), s.T), b.BVCmp(smt.OULE, s.T, b.BVConst(hi, 32)))
		return i.mk(b.Ite(in, b.BVBin(smt.OAdd, s.T, b.BVConst(delta, 32)), s.T), types.Int32)
	}
	c := i.concValue(r).(int32)
	if upper {
		return unicode.ToUpper(c)
	}
	return unicode.ToLower(c)
}

// len64 is math/bits.Len64; for a symbolic operand a fork-free chain of comparisons.
func (i *interpreter) len64(x value) value {
	s, ok := x.(*Sym)
	if !ok {
		return bits.Len64(x.(uint64))
	}
	b := i.tb
	r := b.BVConst(0, 64)
	for k := 0; k < 64; k++ {
		r = b.Ite(b.BVCmp(smt.OULE, b.BVConst(uint64(1)<<uint(k), 64), s.T), b.BVConst(uint64(k+1), 64), r)
	}
	return i.mk(r, types.Int)
}

// syncMap returns the ordered map standing in for a *sync.Map receiver.
func (i *interpreter) syncMap(recv value, create bool) *omap {
	cell := recv.(*value)
	if i.syncMaps == nil {
		i.syncMaps = map[*value]*omap{}
	}
	m := i.syncMaps[cell]
	if m == nil && create {
		m = makeMap(types.NewInterfaceType(nil, nil), 0).(*omap)
		i.syncMaps[cell] = m
	}
	return m
}

// noteSharedWrite records a mutation of process-wide shared state.
func (i *interpreter) noteSharedWrite(what string) {
	if i.inInit || i.ps == nil {
		return
	}
	i.res.GlobalWrites[what+" @ "+i.curPosString()]++
	i.ps.sharedWrites++
}

// sortSlice: insertion sort driven by the program's less function (stable).
func (i *interpreter) sortSlice(fr *frame, x, less value) value {
	xs := x.(iface).v.([]value)
	lt := func(a, b int) bool {
		r := call(i, fr, token.NoPos, less, []value{a, b})
		switch c := r.(type) {
		case bool:
			return c
		case *Sym:
			return i.branch(c.T)
		}
		panic("sort.Slice: less did not return a bool")
	}
	for k := 1; k < len(xs); k++ {
		for j := k; j > 0 && lt(j, j-1); j-- {
			t := xs[j]
			i.writeCell(&xs[j], xs[j-1])
			i.writeCell(&xs[j-1], t)
		}
	}
	return nil
}

// callStream invokes a method of the harness's JSON stream object (vx.ModelJSONStream).
func (i *interpreter) callStream(fr *frame, name string, args ...value) value {
	obj := i.ps.jsonStream.(iface)
	sel := i.prog.MethodSets.MethodSet(obj.t).Lookup(nil, name)
	if sel == nil {
		panic("vx.ModelJSONStream: stream object has no method " + name)
	}
	fn := i.prog.MethodValue(sel)
	return call(i, fr, token.NoPos, fn, append([]value{obj.v}, args...))
}
