package sx

import (
	"bytes"
	"fmt"
	"go/token"
	"go/types"
	"os"
	"unicode/utf8"
	"unsafe"

	"golang.org/x/tools/go/ssa"
	"verif/engine/smt"
)

// store stores value v of type T into *addr (logged for rollback / monitors).
func (i *interpreter) store(T types.Type, addr *value, v value) {
	switch T := T.Underlying().(type) {
	case *types.Struct:
		lhs := (*addr).(structure)
		rhs := v.(structure)
		for k := range lhs {
			i.store(T.Field(k).Type(), &lhs[k], rhs[k])
		}
	case *types.Array:
		lhs := (*addr).(array)
		rhs := v.(array)
		for k := range lhs {
			i.store(T.Elem(), &lhs[k], rhs[k])
		}
	default:
		i.writeCell(addr, v)
	}
}

var sizeClasses = []int64{0, 8, 16, 24, 32, 48, 64, 80, 96, 112, 128, 144, 160, 176, 192, 208, 224, 240, 256, 288, 320, 352, 384, 416, 448, 480, 512, 576, 640, 704, 768, 896, 1024, 1152, 1280, 1408, 1536, 1792, 2048, 2304, 2688, 3072, 3200, 3456, 4096, 4864, 5120, 5376, 6144, 6528, 6784, 6912, 8192, 9472, 9728, 10240, 10880, 12288, 13568, 14336, 16384, 18432, 19072, 20480, 21760, 24576, 27264, 28672, 32768}

func roundupsize(n int64) int64 {
	if n <= 32768 {
		for _, c := range sizeClasses {
			if c >= n {
				return c
			}
		}
	}
	return (n + 8191) &^ 8191
}

// growCap mirrors runtime.growslice's capacity computation (go1.2x, amd64).
func growCap(oldCap, newLen int, elemSize int64) int {
	newcap := oldCap
	doublecap := newcap + newcap
	if newLen > doublecap {
		newcap = newLen
	} else {
		const threshold = 256
		if oldCap < threshold {
			newcap = doublecap
		} else {
			for newcap < newLen {
				newcap += (newcap + 3*threshold) >> 2
			}
		}
	}
	if elemSize == 0 {
		return newcap
	}
	return int(roundupsize(int64(newcap)*elemSize) / elemSize)
}

// appendValues implements append(dst, src...) with write logging.
func (i *interpreter) appendValues(dst []value, src []value, et types.Type) []value {
	n := len(dst)
	if n+len(src) <= cap(dst) {
		out := dst[:n+len(src)]
		for k, v := range src {
			i.writeCell(&out[n+k], copyVal(v))
		}
		return out
	}
	nc := growCap(cap(dst), n+len(src), i.sizes.Sizeof(et))
	out := make([]value, n+len(src), nc)
	copy(out, dst)
	for k, v := range src {
		out[n+k] = copyVal(v)
	}
	full := out[:nc]
	for k := len(out); k < nc; k++ {
		full[k] = zero(et)
	}
	return out
}

// copyVal makes an unaliased copy of an aggregate value.
func copyVal(v value) value {
	switch x := v.(type) {
	case structure:
		out := make(structure, len(x))
		for k := range x {
			out[k] = copyVal(x[k])
		}
		return out
	case array:
		out := make(array, len(x))
		for k := range x {
			out[k] = copyVal(x[k])
		}
		return out
	}
	return v
}

// callBuiltin interprets a call to builtin fn with arguments args,
// returning its result.
func callBuiltin(caller *frame, callpos token.Pos, fn *ssa.Builtin, args []value) value {
	i := caller.i
	switch fn.Name() {
	case "append":
		if len(args) == 1 {
			return args[0]
		}
		dst := args[0].([]value)
		var src []value
		if isStr(args[1]) {
			src = strBytes(args[1])
		} else {
			src = args[1].([]value)
		}
		if len(src) == 0 {
			return dst
		}
		sig := fn.Type().(*types.Signature)
		et := sig.Params().At(0).Type().Underlying().(*types.Slice).Elem()
		return i.appendValues(dst, src, et)

	case "copy": // copy([]T, []T) int or copy([]byte, string) int
		dst := args[0].([]value)
		var src []value
		if isStr(args[1]) {
			src = strBytes(args[1])
		} else {
			src = args[1].([]value)
		}
		n := len(dst)
		if len(src) < n {
			n = len(src)
		}
		if n == 0 {
			return 0
		}
		// overlapping semantics: memmove
		tmp := make([]value, n)
		for k := 0; k < n; k++ {
			tmp[k] = copyVal(src[k])
		}
		for k := 0; k < n; k++ {
			i.writeCell(&dst[k], tmp[k])
		}
		return n

	case "close":
		panic("channels are not supported")

	case "delete": // delete(map[K]value, K)
		i.mapDelete(args[0].(*omap), args[1])
		return nil

	case "clear":
		switch m := args[0].(type) {
		case *omap:
			if m != nil {
				for _, e := range append([]oentry{}, m.entries...) {
					if e.live {
						i.mapDelete(m, e.key)
					}
				}
			}
		case []value:
			sig := fn.Type().(*types.Signature)
			et := sig.Params().At(0).Type().Underlying().(*types.Slice).Elem()
			for k := range m {
				i.writeCell(&m[k], zero(et))
			}
		}
		return nil

	case "print", "println": // print(any, ...)
		ln := fn.Name() == "println"
		var buf bytes.Buffer
		for k, arg := range args {
			if k > 0 && ln {
				buf.WriteRune(' ')
			}
			buf.WriteString(toString(arg))
		}
		if ln {
			buf.WriteRune('\n')
		}
		os.Stderr.Write(buf.Bytes())
		return nil

	case "len":
		switch x := args[0].(type) {
		case string:
			return len(x)
		case sstr:
			return len(x.b)
		case array:
			return len(x)
		case *value:
			return len((*x).(array))
		case []value:
			return len(x)
		case *omap:
			return x.len()
		default:
			panic(fmt.Sprintf("len: illegal operand: %T", x))
		}

	case "cap":
		switch x := args[0].(type) {
		case array:
			return cap(x)
		case *value:
			return cap((*x).(array))
		case []value:
			return cap(x)
		default:
			panic(fmt.Sprintf("cap: illegal operand: %T", x))
		}

	case "min":
		return i.foldMinMax(token.LSS, args)
	case "max":
		return i.foldMinMax(token.GTR, args)

	case "panic":
		panic(targetPanic{args[0]})

	case "recover":
		return doRecover(caller)

	case "ssa:wrapnilchk":
		recv := args[0]
		if recv.(*value) == nil {
			recvType := args[1]
			methodName := args[2]
			panic(runtimeError(fmt.Sprintf("value method (%s).%s called using nil *%s pointer",
				recvType, methodName, recvType)))
		}
		return recv

	case "ssa:deferstack":
		return &caller.defers

	case "SliceData":
		return sliceData{args[0].([]value)}
	case "String": // unsafe.String(ptr, len)
		n := i.concInt(args[1])
		switch p := args[0].(type) {
		case sliceData:
			if n == 0 {
				return ""
			}
			return sstr{p.s[:n:n]}
		case *value:
			if n == 0 {
				return ""
			}
		}
		panic(fmt.Sprintf("unsafe.String: unsupported pointer %T", args[0]))
	case "StringData":
		return sliceData{strBytes(args[0])}
	case "Slice": // unsafe.Slice(ptr, len)
		n := i.concInt(args[1])
		if p, ok := args[0].(sliceData); ok {
			return p.s[:n:n]
		}
		panic(fmt.Sprintf("unsafe.Slice: unsupported pointer %T", args[0]))
	}

	panic("unknown built-in: " + fn.Name())
}

func (i *interpreter) foldMinMax(op token.Token, args []value) value {
	x := args[0]
	for _, y := range args[1:] {
		if isSym(x) || isSym(y) {
			if kindOf(x) == types.Float64 {
				panic("min/max on symbolic floats is not supported")
			}
			c := i.symBinop(op, nil, y, x)
			v, ok := i.iteValue(i.lift(c), y, x)
			if !ok {
				panic("min/max: cannot merge")
			}
			x = v
			continue
		}
		if op == token.LSS {
			x = min(x, y)
		} else {
			x = max(x, y)
		}
	}
	return x
}

type sstrIter struct {
	i   *interpreter
	b   []value
	pos int
}

func (it *sstrIter) next() tuple {
	okv := make(tuple, 3)
	if it.pos >= len(it.b) {
		okv[0] = false
		return okv
	}
	i := it.i
	okv[0] = true
	okv[1] = it.pos
	lead := it.b[it.pos]
	if s, ok := lead.(*Sym); ok {
		// ASCII fast path keeps the byte symbolic
		if i.branch(i.tb.BVCmp(smt.OULT, s.T, i.tb.BVConst(0x80, 8))) {
			okv[2] = i.mk(i.tb.ZExt(s.T, 32), types.Int32)
			it.pos++
			return okv
		}
	}
	// concretise up to 4 bytes and decode
	var buf [4]byte
	n := 0
	for n < 4 && it.pos+n < len(it.b) {
		buf[n] = i.concValue(it.b[it.pos+n]).(uint8)
		n++
		if r, sz := utf8.DecodeRune(buf[:n]); r != utf8.RuneError || sz > 1 {
			if utf8.FullRune(buf[:n]) {
				break
			}
		}
		if utf8.FullRune(buf[:n]) {
			break
		}
	}
	r, sz := utf8.DecodeRune(buf[:n])
	okv[2] = r
	it.pos += sz
	return okv
}

func rangeIter(i *interpreter, x value, t types.Type) iter {
	switch x := x.(type) {
	case *omap:
		return &omapIter{m: x}
	case string:
		return &sstrIter{i: i, b: strBytes(x)}
	case sstr:
		return &sstrIter{i: i, b: x.b}
	}
	panic(fmt.Sprintf("cannot range over %T", x))
}

// convSpecial handles conversions involving symbolic values, sstr and unsafe.
func (i *interpreter) convSpecial(t_dst, t_src, ut_dst, ut_src types.Type, x value) (value, bool) {
	// scalars
	if s, ok := x.(*Sym); ok {
		if bd, ok := ut_dst.(*types.Basic); ok {
			if bd.Kind() == types.String {
				r := i.concValue(x)
				return fmt.Sprintf("%c", widen(r)), true
			}
			return i.symConv(kindOfType(bd), s), true
		}
		panic(fmt.Sprintf("conversion of symbolic scalar to %s", t_dst))
	}
	switch src := ut_src.(type) {
	case *types.Slice:
		// []byte -> string with symbolic bytes; []rune -> string
		if bd, ok := ut_dst.(*types.Basic); ok && bd.Kind() == types.String {
			xs := x.([]value)
			if eb, ok := src.Elem().Underlying().(*types.Basic); ok && eb.Kind() == types.Byte {
				return mkStr(xs), true
			}
			if !allConcrete(xs) {
				r := make([]rune, len(xs))
				for k := range xs {
					r[k] = i.concValue(xs[k]).(int32)
				}
				return string(r), true
			}
		}
	case *types.Basic:
		if s, ok := x.(sstr); ok {
			switch d := ut_dst.(type) {
			case *types.Slice:
				switch d.Elem().Underlying().(*types.Basic).Kind() {
				case types.Byte:
					out := make([]value, len(s.b))
					copy(out, s.b)
					return out, true
				case types.Rune:
					var res []value
					for _, r := range []rune(i.concString(s)) {
						res = append(res, r)
					}
					return res, true
				}
			case *types.Basic:
				if d.Kind() == types.String {
					return x, true
				}
			}
		}
		if src.Kind() == types.UnsafePointer {
			// unsafe.Pointer -> *T
			switch p := x.(type) {
			case unsafe.Pointer:
				cell := (*value)(p)
				if cell == nil {
					return zero(t_dst), true
				}
				pt, ok := ut_dst.(*types.Pointer)
				if !ok {
					break
				}
				// *[8]byte view of an 8-byte scalar (little endian copy)
				if at, ok := pt.Elem().Underlying().(*types.Array); ok {
					if eb, ok := at.Elem().Underlying().(*types.Basic); ok && eb.Kind() == types.Byte && at.Len() == 8 {
						v := *cell
						var bits value
						switch kindOf(v) {
						case types.Float64:
							bits = i.floatBits(v)
						case types.Int, types.Int64, types.Uint, types.Uint64, types.Uintptr:
							bits = v
						default:
							panic(fmt.Sprintf("unsafe view *[8]byte of %T", v))
						}
						t := i.lift(bits)
						arr := make(array, 8)
						for k := 0; k < 8; k++ {
							arr[k] = i.mk(i.tb.Extract(t, 8*k+7, 8*k), types.Uint8)
						}
						var cellv value = arr
						return &cellv, true
					}
				}
				// same-shape reinterpretation: keep the cell
				return cell, true
			case sliceData:
				return p, true
			}
		}
	case *types.Pointer:
		if bd, ok := ut_dst.(*types.Basic); ok && bd.Kind() == types.UnsafePointer {
			switch p := x.(type) {
			case sliceData:
				return p, true
			case symPtr:
				panic("unsafe.Pointer of symbolic element pointer")
			}
		}
	}
	return nil, false
}
