// Copyright 2013 The Go Authors. All rights reserved.
// Use of this source code is governed by a BSD-style
// license that can be found in the LICENSE file (LICENSE.x-tools).

// Package sx is a symbolic executor for Go SSA: a fork of
// golang.org/x/tools/go/ssa/interp (v0.29.0) whose value universe is extended
// with symbolic scalars (SMT terms), strings over possibly symbolic bytes and
// element pointers with symbolic index. Paths are explored by re-execution
// (explore.go); obligations are decided by an SMT solver.
package sx

import (
	"fmt"
	"go/token"
	"go/types"
	"log"
	"os"
	"runtime"
	"slices"

	"golang.org/x/tools/go/ssa"
	"verif/engine/smt"
)

type continuation int

const (
	kNext continuation = iota
	kReturn
	kJump
)

// Mode is a bitmask of options affecting the interpreter.
type Mode uint

const (
	DisableRecover Mode = 1 << iota // Disable recover() in target programs; show interpreter crash instead.
	EnableTracing                   // Print a trace of all instructions as they are interpreted.
)

type methodSet map[string]*ssa.Function

// State shared between all interpreted goroutines.
type interpreter struct {
	osArgs             []value                // the value of os.Args
	prog               *ssa.Program           // the SSA program
	globals            map[*ssa.Global]*value // addresses of global variables (immutable)
	mode               Mode                   // interpreter options
	reflectPackage     *ssa.Package           // the fake reflect package
	errorMethods       methodSet              // the method set of reflect.error, which implements the error interface.
	rtypeMethods       methodSet              // the method set of rtype, which implements the reflect.Type interface.
	runtimeErrorString types.Type             // the runtime.errorString type
	sizes              types.Sizes            // the effective type-sizing function
	goroutines         int32                  // atomically updated

	// symbolic execution state
	tb              *smt.Builder
	sol             *smt.Solver
	ps              *pathState
	res             *JobResult
	lim             Limits
	params          map[string]string
	work            [][]decision
	violated        map[string]int
	unknowns        int // solver time-outs in the current job
	slow            int // queries decided only after more than a third of the time-out
	maxViolPerLabel int
	concreteMode    bool
	concreteInputs  []uint64
	concreteUF      []UFEntry
	reachAlways     bool
	curInstr        ssa.Instruction
	frozenCount     int
	lockDepth       int // sync.Mutex model: number of locks held
	envCount        int
	dbgDumped       bool
	syncMaps        map[*value]*omap
	onceDone        map[*value]bool
	initAllow       func(path string) bool
	inInit          bool
	funcsSeen       map[*ssa.Function]bool
	globalsOf       map[*value]*ssa.Global
}

type deferred struct {
	fn    value
	args  []value
	instr *ssa.Defer
	tail  *deferred
}

type frame struct {
	i                *interpreter
	caller           *frame
	fn               *ssa.Function
	block, prevBlock *ssa.BasicBlock
	env              map[ssa.Value]value // dynamic values of SSA variables
	locals           []value
	defers           *deferred
	result           value
	panicking        bool
	panic            interface{}
	phitemps         []value // temporaries for parallel phi assignment
}

func (fr *frame) get(key ssa.Value) value {
	switch key := key.(type) {
	case nil:
		// Hack; simplifies handling of optional attributes
		// such as ssa.Slice.{Low,High}.
		return nil
	case *ssa.Function, *ssa.Builtin:
		return key
	case *ssa.Const:
		return constValue(key)
	case *ssa.Global:
		if r, ok := fr.i.globals[key]; ok {
			return r
		}
	}
	if r, ok := fr.env[key]; ok {
		return r
	}
	panic(fmt.Sprintf("get: no value for %T: %v", key, key.Name()))
}

// runDefer runs a deferred call d.
// It always returns normally, but may set or clear fr.panic.
func (fr *frame) runDefer(d *deferred) {
	if fr.i.mode&EnableTracing != 0 {
		fmt.Fprintf(os.Stderr, "%s: invoking deferred function call\n",
			fr.i.prog.Fset.Position(d.instr.Pos()))
	}
	var ok bool
	defer func() {
		if !ok {
			// Deferred call created a new state of panic.
			p := recover()
			if pe, isEnd := p.(pathEnd); isEnd {
				panic(pe)
			}
			fr.panicking = true
			fr.panic = p
		}
	}()
	call(fr.i, fr, d.instr.Pos(), d.fn, d.args)
	ok = true
}

// runDefers executes fr's deferred function calls in LIFO order.
//
// On entry, fr.panicking indicates a state of panic; if
// true, fr.panic contains the panic value.
//
// On completion, if a deferred call started a panic, or if no
// deferred call recovered from a previous state of panic, then
// runDefers itself panics after the last deferred call has run.
//
// If there was no initial state of panic, or it was recovered from,
// runDefers returns normally.
func (fr *frame) runDefers() {
	for d := fr.defers; d != nil; d = d.tail {
		fr.runDefer(d)
	}
	fr.defers = nil
	if fr.panicking {
		panic(fr.panic) // new panic, or still panicking
	}
}

// lookupMethod returns the method set for type typ, which may be one
// of the interpreter's fake types.
func lookupMethod(i *interpreter, typ types.Type, meth *types.Func) *ssa.Function {
	switch typ {
	case rtypeType:
		return i.rtypeMethods[meth.Id()]
	case errorType:
		return i.errorMethods[meth.Id()]
	}
	return i.prog.LookupMethod(typ, meth.Pkg(), meth.Name())
}

// visitInstr interprets a single ssa.Instruction within the activation
// record frame.  It returns a continuation value indicating where to
// read the next instruction from.
func visitInstr(fr *frame, instr ssa.Instruction) continuation {
	fr.i.curInstr = instr
	fr.i.step()
	switch instr := instr.(type) {
	case *ssa.DebugRef:
		// no-op

	case *ssa.UnOp:
		fr.env[instr] = unop(fr.i, instr, fr.get(instr.X))

	case *ssa.BinOp:
		fr.env[instr] = binop(fr.i, instr.Op, instr.X.Type(), fr.get(instr.X), fr.get(instr.Y))

	case *ssa.Call:
		fn, args := prepareCall(fr, &instr.Call)
		fr.env[instr] = call(fr.i, fr, instr.Pos(), fn, args)

	case *ssa.ChangeInterface:
		fr.env[instr] = fr.get(instr.X)

	case *ssa.ChangeType:
		fr.env[instr] = fr.get(instr.X) // (can't fail)

	case *ssa.Convert:
		fr.env[instr] = conv(fr.i, instr.Type(), instr.X.Type(), fr.get(instr.X))

	case *ssa.SliceToArrayPointer:
		fr.env[instr] = sliceToArrayPointer(instr.Type(), instr.X.Type(), fr.get(instr.X))

	case *ssa.MakeInterface:
		fr.env[instr] = iface{t: instr.X.Type(), v: fr.get(instr.X)}

	case *ssa.Extract:
		fr.env[instr] = fr.get(instr.Tuple).(tuple)[instr.Index]

	case *ssa.Slice:
		fr.env[instr] = slice(fr.i, fr.get(instr.X), fr.get(instr.Low), fr.get(instr.High), fr.get(instr.Max))

	case *ssa.Return:
		switch len(instr.Results) {
		case 0:
		case 1:
			fr.result = fr.get(instr.Results[0])
		default:
			var res []value
			for _, r := range instr.Results {
				res = append(res, fr.get(r))
			}
			fr.result = tuple(res)
		}
		fr.block = nil
		return kReturn

	case *ssa.RunDefers:
		fr.runDefers()

	case *ssa.Panic:
		panic(targetPanic{fr.get(instr.X)})

	case *ssa.Send:
		panic("channels are not supported")

	case *ssa.Store:
		switch a := fr.get(instr.Addr).(type) {
		case *value:
			if a == nil {
				panic(runtimeError("invalid memory address or nil pointer dereference"))
			}
			fr.i.noteGlobalWrite(a)
			fr.i.store(mustDeref(instr.Addr.Type()), a, fr.get(instr.Val))
		case symPtr:
			fr.i.storeSym(a, fr.get(instr.Val))
		default:
			panic(fmt.Sprintf("store through %T", a))
		}

	case *ssa.If:
		succ := 1
		switch c := fr.get(instr.Cond).(type) {
		case bool:
			if c {
				succ = 0
			}
		case *Sym:
			if fr.i.branch(c.T) {
				succ = 0
			}
		}
		fr.prevBlock, fr.block = fr.block, fr.block.Succs[succ]
		return kJump

	case *ssa.Jump:
		fr.prevBlock, fr.block = fr.block, fr.block.Succs[0]
		return kJump

	case *ssa.Defer:
		fn, args := prepareCall(fr, &instr.Call)
		defers := &fr.defers
		if into := fr.get(instr.DeferStack); into != nil {
			defers = into.(**deferred)
		}
		*defers = &deferred{
			fn:    fn,
			args:  args,
			instr: instr,
			tail:  *defers,
		}

	case *ssa.Go:
		panic("go statements are not supported")

	case *ssa.MakeChan:
		panic("channels are not supported")

	case *ssa.Alloc:
		var addr *value
		if instr.Heap {
			// new
			addr = new(value)
			fr.env[instr] = addr
		} else {
			// local
			addr = fr.env[instr].(*value)
		}
		if instr.Heap {
			*addr = zero(mustDeref(instr.Type()))
		} else {
			fr.i.writeCell(addr, zero(mustDeref(instr.Type())))
		}

	case *ssa.MakeSlice:
		cp := fr.i.concInt(fr.get(instr.Cap))
		ln := fr.i.concInt(fr.get(instr.Len))
		if ln < 0 || cp < ln || cp > 1<<24 {
			panic(runtimeError(fmt.Sprintf("makeslice: len/cap out of range (%d,%d)", ln, cp)))
		}
		slice := make([]value, cp)
		tElt := instr.Type().Underlying().(*types.Slice).Elem()
		for i := range slice {
			slice[i] = zero(tElt)
		}
		fr.env[instr] = slice[:ln]

	case *ssa.MakeMap:
		fr.env[instr] = makeMap(instr.Type().Underlying().(*types.Map).Key(), 0)

	case *ssa.Range:
		fr.env[instr] = rangeIter(fr.i, fr.get(instr.X), instr.X.Type())

	case *ssa.Next:
		fr.env[instr] = fr.get(instr.Iter).(iter).next()

	case *ssa.FieldAddr:
		p := fr.get(instr.X).(*value)
		if p == nil {
			panic(runtimeError("invalid memory address or nil pointer dereference"))
		}
		fr.env[instr] = &(*p).(structure)[instr.Field]

	case *ssa.Field:
		fr.env[instr] = fr.get(instr.X).(structure)[instr.Field]

	case *ssa.IndexAddr:
		x := fr.get(instr.X)
		idx := fr.get(instr.Index)
		var base []value
		switch x := x.(type) {
		case []value:
			base = x
		case *value: // *array
			if x == nil {
				panic(runtimeError("invalid memory address or nil pointer dereference"))
			}
			base = (*x).(array)
		default:
			panic(fmt.Sprintf("unexpected x type in IndexAddr: %T", x))
		}
		if s, ok := idx.(*Sym); ok {
			fr.env[instr] = fr.i.symIndexAddr(base, s)
		} else {
			k := asInt64(idx)
			if k < 0 || k >= int64(len(base)) {
				panic(runtimeError(fmt.Sprintf("index out of range [%d] with length %d", k, len(base))))
			}
			fr.env[instr] = &base[k]
		}

	case *ssa.Index:
		x := fr.get(instr.X)
		idx := fr.get(instr.Index)

		fr.env[instr] = fr.i.indexValue(x, idx)

	case *ssa.Lookup:
		fr.env[instr] = lookup(fr.i, instr, fr.get(instr.X), fr.get(instr.Index))

	case *ssa.MapUpdate:
		m := fr.get(instr.Map).(*omap)
		fr.i.mapInsert(m, fr.get(instr.Key), fr.get(instr.Value))

	case *ssa.TypeAssert:
		fr.env[instr] = typeAssert(fr.i, instr, fr.get(instr.X).(iface))

	case *ssa.MakeClosure:
		var bindings []value
		for _, binding := range instr.Bindings {
			bindings = append(bindings, fr.get(binding))
		}
		fr.env[instr] = &closure{instr.Fn.(*ssa.Function), bindings}

	case *ssa.Phi:
		log.Fatal("unreachable") // phis are processed at block entry

	case *ssa.Select:
		panic("select is not supported")

	default:
		panic(fmt.Sprintf("unexpected instruction: %T", instr))
	}

	// if val, ok := instr.(ssa.Value); ok {
	// 	fmt.Println(toString(fr.env[val])) // debugging
	// }

	return kNext
}

// prepareCall determines the function value and argument values for a
// function call in a Call, Go or Defer instruction, performing
// interface method lookup if needed.
func prepareCall(fr *frame, call *ssa.CallCommon) (fn value, args []value) {
	v := fr.get(call.Value)
	if call.Method == nil {
		// Function call.
		fn = v
	} else {
		// Interface method invocation.
		recv := v.(iface)
		if recv.t == nil {
			panic(runtimeError("invalid memory address or nil pointer dereference (method on nil interface)"))
		}
		if f := lookupMethod(fr.i, recv.t, call.Method); f == nil {
			// Unreachable in well-typed programs.
			panic(fmt.Sprintf("method set for dynamic type %v does not contain %s", recv.t, call.Method))
		} else {
			fn = f
		}
		args = append(args, recv.v)
	}
	for _, arg := range call.Args {
		args = append(args, fr.get(arg))
	}
	return
}

// call interprets a call to a function (function, builtin or closure)
// fn with arguments args, returning its result.
// callpos is the position of the callsite.
func call(i *interpreter, caller *frame, callpos token.Pos, fn value, args []value) value {
	switch fn := fn.(type) {
	case *ssa.Function:
		if fn == nil {
			panic("call of nil function") // nil of func type
		}
		return callSSA(i, caller, callpos, fn, args, nil)
	case *closure:
		return callSSA(i, caller, callpos, fn.Fn, args, fn.Env)
	case *ssa.Builtin:
		return callBuiltin(caller, callpos, fn, args)
	}
	panic(fmt.Sprintf("cannot call %T", fn))
}

func loc(fset *token.FileSet, pos token.Pos) string {
	if pos == token.NoPos {
		return ""
	}
	return " at " + fset.Position(pos).String()
}

// callSSA interprets a call to function fn with arguments args,
// and lexical environment env, returning its result.
// callpos is the position of the callsite.
func callSSA(i *interpreter, caller *frame, callpos token.Pos, fn *ssa.Function, args []value, env []value) value {
	if i.mode&EnableTracing != 0 {
		fset := fn.Prog.Fset
		// TODO(adonovan): fix: loc() lies for external functions.
		fmt.Fprintf(os.Stderr, "Entering %s%s.\n", fn, loc(fset, fn.Pos()))
		suffix := ""
		if caller != nil {
			suffix = ", resuming " + caller.fn.String() + loc(fset, callpos)
		}
		defer fmt.Fprintf(os.Stderr, "Leaving %s%s.\n", fn, suffix)
	}
	fr := &frame{
		i:      i,
		caller: caller, // for panic/recover
		fn:     fn,
	}
	if fn.Parent() == nil {
		name := fn.String()
		if fn.Pkg != nil && fn.Name() == "init" && fn.Signature.Recv() == nil && fn == fn.Pkg.Func("init") {
			if i.initAllow != nil && !i.initAllow(fn.Pkg.Pkg.Path()) {
				return nil
			}
		}
		if r, handled := i.callNative(fr, fn, name, args); handled {
			return r
		}
		if ext := externals[name]; ext != nil {
			return ext(fr, args)
		}
		if fn.Blocks == nil {
			panic("no code for function: " + name)
		}
	}
	if !i.funcsSeen[fn] {
		i.funcsSeen[fn] = true
	}
	if i.res != nil && !i.inInit {
		i.res.Funcs[fn.String()] = true
	}

	// generic function body?
	if fn.TypeParams().Len() > 0 && len(fn.TypeArgs()) == 0 {
		panic("interp requires ssa.BuilderMode to include InstantiateGenerics to execute generics")
	}

	fr.env = make(map[ssa.Value]value)
	fr.block = fn.Blocks[0]
	fr.locals = make([]value, len(fn.Locals))
	for i, l := range fn.Locals {
		fr.locals[i] = zero(mustDeref(l.Type()))
		fr.env[l] = &fr.locals[i]
	}
	for i, p := range fn.Params {
		fr.env[p] = args[i]
	}
	for i, fv := range fn.FreeVars {
		fr.env[fv] = env[i]
	}
	for fr.block != nil {
		runFrame(fr)
	}
	i.curInstr = nil
	return fr.result
}

// runFrame executes SSA instructions starting at fr.block and
// continuing until a return, a panic, or a recovered panic.
//
// After a panic, runFrame panics.
//
// After a normal return, fr.result contains the result of the call
// and fr.block is nil.
//
// A recovered panic in a function without named return parameters
// (NRPs) becomes a normal return of the zero value of the function's
// result type.
//
// After a recovered panic in a function with NRPs, fr.result is
// undefined and fr.block contains the block at which to resume
// control.
func runFrame(fr *frame) {
	defer func() {
		if fr.block == nil {
			return // normal return
		}
		if fr.i.mode&DisableRecover != 0 {
			return // let interpreter crash
		}
		p := recover()
		if pe, ok := p.(pathEnd); ok {
			panic(pe) // engine control flow, not a target panic
		}
		if os.Getenv("QSYM_DEBUG") != "" && !fr.i.dbgDumped {
			if _, isRT := p.(runtime.Error); isRT {
				fr.i.dbgDumped = true
				buf := make([]byte, 16384)
				n := runtime.Stack(buf, false)
				fmt.Fprintf(os.Stderr, "ORIGIN OF HOST PANIC %v in %s\n%s\n", p, fr.fn, buf[:n])
			}
		}
		fr.panicking = true
		fr.panic = p
		fr.runDefers()
		fr.block = fr.fn.Recover
	}()

	for {
		if fr.i.mode&EnableTracing != 0 {
			fmt.Fprintf(os.Stderr, ".%s:\n", fr.block)
		}

		nonPhis := executePhis(fr)
		for _, instr := range nonPhis {
			if fr.i.mode&EnableTracing != 0 {
				if v, ok := instr.(ssa.Value); ok {
					fmt.Fprintln(os.Stderr, "\t", v.Name(), "=", instr)
				} else {
					fmt.Fprintln(os.Stderr, "\t", instr)
				}
			}
			if visitInstr(fr, instr) == kReturn {
				return
			}
			// Inv: kNext (continue) or kJump (last instr)
		}
	}
}

// executePhis executes the phi-nodes at the start of the current
// block and returns the non-phi instructions.
func executePhis(fr *frame) []ssa.Instruction {
	firstNonPhi := -1
	for i, instr := range fr.block.Instrs {
		if _, ok := instr.(*ssa.Phi); !ok {
			firstNonPhi = i
			break
		}
	}
	// Inv: 0 <= firstNonPhi; every block contains a non-phi.

	nonPhis := fr.block.Instrs[firstNonPhi:]
	if firstNonPhi > 0 {
		phis := fr.block.Instrs[:firstNonPhi]
		// Execute parallel assignment of phis.
		//
		// See "the swap problem" in Briggs et al's "Practical Improvements
		// to the Construction and Destruction of SSA Form" for discussion.
		predIndex := slices.Index(fr.block.Preds, fr.prevBlock)
		fr.phitemps = fr.phitemps[:0]
		for _, phi := range phis {
			phi := phi.(*ssa.Phi)
			if fr.i.mode&EnableTracing != 0 {
				fmt.Fprintln(os.Stderr, "\t", phi.Name(), "=", phi)
			}
			fr.phitemps = append(fr.phitemps, fr.get(phi.Edges[predIndex]))
		}
		for i, phi := range phis {
			fr.env[phi.(*ssa.Phi)] = fr.phitemps[i]
		}
	}
	return nonPhis
}

// doRecover implements the recover() built-in.
func doRecover(caller *frame) value {
	// recover() must be exactly one level beneath the deferred
	// function (two levels beneath the panicking function) to
	// have any effect.  Thus we ignore both "defer recover()" and
	// "defer f() -> g() -> recover()".
	if caller.i.mode&DisableRecover == 0 &&
		caller != nil && !caller.panicking &&
		caller.caller != nil && caller.caller.panicking {
		caller.caller.panicking = false
		p := caller.caller.panic
		caller.caller.panic = nil

		// TODO(adonovan): support runtime.Goexit.
		switch p := p.(type) {
		case targetPanic:
			// The target program explicitly called panic().
			return p.v
		case runtime.Error:
			// The interpreter encountered a runtime error.
			return iface{errorType, p.Error()}
		case string:
			// The interpreter explicitly called panic().
			return iface{errorType, p}
		default:
			panic(fmt.Sprintf("unexpected panic type %T in target call to recover()", p))
		}
	}
	return iface{}
}

// Engine is the public handle on one interpreter instance (one worker).
type Engine struct{ i *interpreter }

// NewEngine creates an interpreter over prog. Package initialisers run for the
// packages accepted by initAllow (others are skipped: their globals stay zero).
func NewEngine(prog *ssa.Program, sizes types.Sizes, sol *smt.Solver, initAllow func(string) bool) *Engine {
	i := &interpreter{
		prog:            prog,
		globals:         make(map[*ssa.Global]*value),
		sizes:           sizes,
		goroutines:      1,
		tb:              smt.NewBuilder(),
		sol:             sol,
		maxViolPerLabel: 1,
		initAllow:       initAllow,
		funcsSeen:       map[*ssa.Function]bool{},
		globalsOf:       map[*value]*ssa.Global{},
	}
	if runtimePkg := i.prog.ImportedPackage("runtime"); runtimePkg != nil {
		i.runtimeErrorString = runtimePkg.Type("errorString").Object().Type()
	}
	initReflect(i)
	for _, pkg := range i.prog.AllPackages() {
		for _, m := range pkg.Members {
			if v, ok := m.(*ssa.Global); ok {
				cell := zero(mustDeref(v.Type()))
				i.globals[v] = &cell
				i.globalsOf[&cell] = v
			}
		}
	}
	return &Engine{i}
}

// InitPackage runs pkg's initialiser (and, transitively, allowed imports).
func (e *Engine) InitPackage(pkg *ssa.Package) (err error) {
	i := e.i
	i.inInit = true
	i.res = &JobResult{Reached: map[string]int{}, Funcs: map[string]bool{}, Stubs: map[string]int{}, FrozenWrites: map[string]int{}, GlobalWrites: map[string]int{}}
	defer func() {
		i.inInit = false
		if r := recover(); r != nil {
			buf := make([]byte, 8192)
			n := runtime.Stack(buf, false)
			err = fmt.Errorf("init of %s failed: %v at %s\n%s", pkg.Pkg.Path(), r, i.curPosString(), buf[:n])
		}
	}()
	call(i, nil, token.NoPos, pkg.Func("init"), nil)
	return nil
}

func (i *interpreter) noteGlobalWrite(a *value) {
	if i.inInit || i.ps == nil {
		return
	}
	if g, ok := i.globalsOf[a]; ok {
		i.res.GlobalWrites[g.String()+" @ "+i.curPosString()]++
		i.ps.sharedWrites++
	}
}

var _ = log.Fatal
var _ = os.Stderr
