package sx

// Contract model of database/sql used by the C19/C15 harnesses (scripted through
// the vxsql intrinsics): Tx.Prepare/Exec, Stmt.Query/Close, Rows.Next/Columns/
// Scan/Err/Close. Scan hands each driver value to the destination's Scan method
// (sql.Scanner), exactly what database/sql's convertAssign does for Scanner
// destinations. Exec arguments are normalised like the default parameter
// converter does (int -> int64, *string -> string or nil).

import (
	"fmt"
	"go/token"
	"go/types"
	"strings"

	"golang.org/x/tools/go/ssa"
)

type sqlScript struct {
	cols    []value // []string
	rows    []value // [][]interface{}
	fail    string
	failAt  int
	execLog []value
	execN   int
	pos     int
	rowsErr bool
	buf     []value // the driver's row buffer for []byte values, reused for every row
}

func (i *interpreter) sqlState() *sqlScript {
	if i.ps.sql == nil {
		i.ps.sql = &sqlScript{}
	}
	return i.ps.sql
}

func boomErr() value { return iface{errorType, "vxsql: scripted failure"} }

func zeroPtrOf(t types.Type) value {
	pt := t.Underlying().(*types.Pointer)
	var cell value = zero(pt.Elem())
	return &cell
}

func (i *interpreter) callVXSQL(fr *frame, fn *ssa.Function, args []value) value {
	if fn.Name() == "init" || i.ps == nil {
		return nil
	}
	st := i.sqlState()
	switch fn.Name() {
	case "SetResult":
		st.cols = args[0].([]value)
		st.rows = args[1].([]value)
		return nil
	case "Fail":
		st.fail = i.concString(args[0])
		st.failAt = int(i.concInt(args[1]))
		return nil
	case "Reset":
		i.ps.sql = &sqlScript{}
		return nil
	case "ExecLog":
		return append([]value{}, st.execLog...)
	case "Tx":
		return zeroPtrOf(fn.Signature.Results().At(0).Type())
	case "init":
		return nil
	}
	panic("vxsql: unknown intrinsic " + fn.Name())
}

// normArg mirrors driver.DefaultParameterConverter for the types qframe passes.
func (i *interpreter) normArg(a value) value {
	it := a.(iface)
	switch v := it.v.(type) {
	case int:
		return iface{types.Typ[types.Int64], int64(v)}
	case *Sym:
		if v.K == types.Int {
			return iface{types.Typ[types.Int64], &Sym{T: v.T, K: types.Int64}}
		}
		return a
	case *value: // *string
		if v == nil {
			return iface{}
		}
		return iface{types.Typ[types.String], *v}
	}
	return a
}

// sqlMethod models the methods of database/sql types; handled=false otherwise.
func (i *interpreter) sqlMethod(fr *frame, fn *ssa.Function, name string, args []value) (value, bool) {
	if !strings.HasPrefix(name, "(*database/sql.") {
		return nil, false
	}
	st := i.sqlState()
	res := fn.Signature.Results()
	// as in database/sql, the methods of Stmt, Rows and Tx dereference their receiver
	if len(args) > 0 {
		if p, isPtr := args[0].(*value); isPtr && p == nil {
			panic(runtimeError("invalid memory address or nil pointer dereference"))
		}
	}
	switch name {
	case "(*database/sql.Tx).Prepare":
		if st.fail == "prepare" {
			return tuple{zero(res.At(0).Type()), boomErr()}, true
		}
		return tuple{zeroPtrOf(res.At(0).Type()), iface{}}, true
	case "(*database/sql.Stmt).Close", "(*database/sql.Rows).Close", "(*database/sql.Tx).Commit", "(*database/sql.Tx).Rollback":
		return iface{}, true
	case "(*database/sql.Stmt).Query":
		if st.fail == "query" {
			return tuple{zero(res.At(0).Type()), boomErr()}, true
		}
		st.pos = 0
		st.rowsErr = false
		return tuple{zeroPtrOf(res.At(0).Type()), iface{}}, true
	case "(*database/sql.Rows).Next":
		if st.fail == "next" && st.pos >= st.failAt {
			st.rowsErr = true
			return false, true
		}
		// the driver's row buffer is reused: []byte values handed out for the previous row die here
		for j := range st.buf {
			i.writeCell(&st.buf[j], uint8('X'))
		}
		if st.pos >= len(st.rows) {
			return false, true
		}
		st.pos++
		return true, true
	case "(*database/sql.Rows).Err":
		if st.rowsErr {
			return boomErr(), true
		}
		return iface{}, true
	case "(*database/sql.Rows).Columns":
		return tuple{append([]value{}, st.cols...), iface{}}, true
	case "(*database/sql.Rows).Scan":
		row := st.rows[st.pos-1].([]value)
		dests := args[1].([]value)
		if len(dests) != len(row) {
			return iface{errorType, fmt.Sprintf("sql: expected %d destination arguments in Scan, not %d", len(row), len(dests))}, true
		}
		off := 0
		for k, d := range dests {
			if it, ok := row[k].(iface); ok {
				if bs, ok := it.v.([]value); ok {
					// a []byte value lives in the driver's row buffer (valid until the next Next)
					if st.buf == nil {
						st.buf = make([]value, 256)
						for j := range st.buf {
							st.buf[j] = uint8('X')
						}
					}
					for j := range bs {
						i.writeCell(&st.buf[off+j], bs[j])
					}
					row = append([]value{}, row...)
					row[k] = iface{it.t, st.buf[off : off+len(bs) : off+len(bs)]}
					off += len(bs)
				}
			}
			di := d.(iface)
			m := i.prog.LookupMethod(di.t, nil, "Scan")
			if m == nil {
				panic("sql model: Scan destination is not a sql.Scanner: " + di.t.String())
			}
			r := call(i, fr, token.NoPos, m, []value{di.v, row[k]})
			if e := r.(iface); e.t != nil {
				return iface{errorType, "sql: Scan error on column: " + toString(e.v)}, true
			}
		}
		return iface{}, true
	case "(*database/sql.Tx).Exec":
		n := st.execN
		st.execN++
		if st.fail == "exec" && n == st.failAt {
			return tuple{zero(res.At(0).Type()), boomErr()}, true
		}
		entry := []value{iface{types.Typ[types.String], args[1]}}
		for _, a := range args[2].([]value) {
			entry = append(entry, i.normArg(a))
		}
		st.execLog = append(st.execLog, entry)
		return tuple{zero(res.At(0).Type()), iface{}}, true
	}
	panic("sql model: unsupported method " + name)
}
