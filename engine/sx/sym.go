package sx

// Symbolic leaves for the interpreter: Sym (scalar term), sstr (string over a
// byte slice, possibly aliasing it, possibly with symbolic bytes), symPtr
// (element pointer with symbolic index).

import (
	"fmt"
	"go/token"
	"go/types"
	"math"

	"verif/engine/smt"
)

// Sym is a symbolic scalar of Go basic kind K.
type Sym struct {
	T *smt.Term
	K types.BasicKind
}

// sstr is a string whose bytes live in b (concrete length). It may alias a
// byte slice of the program (unsafe.String) and its bytes may be symbolic.
type sstr struct{ b []value }

// symPtr is &base[idx] with a symbolic idx (64-bit term, already known in range).
type symPtr struct {
	base []value
	idx  *smt.Term
}

// sliceData is the result of unsafe.SliceData: it remembers the slice.
type sliceData struct{ s []value }

func mustDeref(t types.Type) types.Type {
	if p, ok := t.Underlying().(*types.Pointer); ok {
		return p.Elem()
	}
	panic(fmt.Sprintf("mustDeref: %v is not a pointer", t))
}

func kindWidth(k types.BasicKind) int {
	switch k {
	case types.Bool:
		return 1
	case types.Int8, types.Uint8:
		return 8
	case types.Int16, types.Uint16:
		return 16
	case types.Int32, types.Uint32:
		return 32
	case types.Int, types.Uint, types.Int64, types.Uint64, types.Uintptr, types.Float64:
		return 64
	}
	panic(fmt.Sprintf("kindWidth: unsupported kind %v", k))
}

func kindSigned(k types.BasicKind) bool {
	switch k {
	case types.Int, types.Int8, types.Int16, types.Int32, types.Int64:
		return true
	}
	return false
}

func kindOfType(t types.Type) types.BasicKind {
	b, ok := t.Underlying().(*types.Basic)
	if !ok {
		return types.Invalid
	}
	k := b.Kind()
	switch k {
	case types.UntypedInt:
		return types.Int
	case types.UntypedRune:
		return types.Int32
	case types.UntypedFloat:
		return types.Float64
	case types.UntypedBool:
		return types.Bool
	}
	return k
}

// kindOf returns the basic kind of a scalar interpreter value.
func kindOf(v value) types.BasicKind {
	switch v := v.(type) {
	case *Sym:
		return v.K
	case bool:
		return types.Bool
	case int:
		return types.Int
	case int8:
		return types.Int8
	case int16:
		return types.Int16
	case int32:
		return types.Int32
	case int64:
		return types.Int64
	case uint:
		return types.Uint
	case uint8:
		return types.Uint8
	case uint16:
		return types.Uint16
	case uint32:
		return types.Uint32
	case uint64:
		return types.Uint64
	case uintptr:
		return types.Uintptr
	case float64:
		return types.Float64
	case float32:
		return types.Float32
	}
	return types.Invalid
}

func isSym(v value) bool { _, ok := v.(*Sym); return ok }

// concreteOfKind builds the Go value of kind k from a raw payload.
func concreteOfKind(k types.BasicKind, v uint64) value {
	switch k {
	case types.Bool:
		return v != 0
	case types.Int:
		return int(v)
	case types.Int8:
		return int8(v)
	case types.Int16:
		return int16(v)
	case types.Int32:
		return int32(v)
	case types.Int64:
		return int64(v)
	case types.Uint:
		return uint(v)
	case types.Uint8:
		return uint8(v)
	case types.Uint16:
		return uint16(v)
	case types.Uint32:
		return uint32(v)
	case types.Uint64:
		return uint64(v)
	case types.Uintptr:
		return uintptr(v)
	case types.Float64:
		return math.Float64frombits(v)
	}
	panic(fmt.Sprintf("concreteOfKind: unsupported kind %v", k))
}

// mk wraps a term as a value of kind k, collapsing constants to Go values.
func (i *interpreter) mk(t *smt.Term, k types.BasicKind) value {
	if t.IsConst() {
		return concreteOfKind(k, t.V)
	}
	return &Sym{T: t, K: k}
}

// lift turns a scalar value into a term.
func (i *interpreter) lift(v value) *smt.Term {
	b := i.tb
	switch v := v.(type) {
	case *Sym:
		return v.T
	case bool:
		return b.BoolConst(v)
	case float64:
		return b.FPConst(v)
	case int, int8, int16, int32, int64:
		return b.BVConst(uint64(asInt64(v)), kindWidth(kindOf(v)))
	case uint, uint8, uint16, uint32, uint64, uintptr:
		return b.BVConst(asUint64(v), kindWidth(kindOf(v)))
	}
	panic(fmt.Sprintf("lift: cannot lift %T", v))
}

// ---------------------------------------------------------------------------
// scalars

func (i *interpreter) symBinop(op token.Token, t types.Type, x, y value) value {
	b := i.tb
	k := kindOf(x)
	if k == types.Invalid {
		k = kindOf(y)
	}
	switch op {
	case token.SHL, token.SHR:
		return i.symShift(op, x, y)
	}
	tx, ty := i.lift(x), i.lift(y)
	if k == types.Float64 {
		switch op {
		case token.ADD:
			return i.mk(b.FBin(smt.OFAdd, tx, ty), k)
		case token.SUB:
			return i.mk(b.FBin(smt.OFSub, tx, ty), k)
		case token.MUL:
			return i.mk(b.FBin(smt.OFMul, tx, ty), k)
		case token.QUO:
			return i.mk(b.FBin(smt.OFDiv, tx, ty), k)
		case token.EQL:
			return i.mk(b.FCmp(smt.OFEq, tx, ty), types.Bool)
		case token.NEQ:
			return i.mk(b.Not(b.FCmp(smt.OFEq, tx, ty)), types.Bool)
		case token.LSS:
			return i.mk(b.FCmp(smt.OFLT, tx, ty), types.Bool)
		case token.LEQ:
			return i.mk(b.FCmp(smt.OFLE, tx, ty), types.Bool)
		case token.GTR:
			return i.mk(b.FCmp(smt.OFLT, ty, tx), types.Bool)
		case token.GEQ:
			return i.mk(b.FCmp(smt.OFLE, ty, tx), types.Bool)
		}
		panic(fmt.Sprintf("symBinop: bad float op %s", op))
	}
	if k == types.Bool {
		switch op {
		case token.EQL:
			return i.mk(b.Eq(tx, ty), types.Bool)
		case token.NEQ:
			return i.mk(b.Not(b.Eq(tx, ty)), types.Bool)
		case token.AND, token.LAND:
			return i.mk(b.And(tx, ty), types.Bool)
		case token.OR, token.LOR:
			return i.mk(b.Or(tx, ty), types.Bool)
		}
		panic(fmt.Sprintf("symBinop: bad bool op %s", op))
	}
	sg := kindSigned(k)
	switch op {
	case token.ADD:
		return i.mk(b.BVBin(smt.OAdd, tx, ty), k)
	case token.SUB:
		return i.mk(b.BVBin(smt.OSub, tx, ty), k)
	case token.MUL:
		return i.mk(b.BVBin(smt.OMul, tx, ty), k)
	case token.QUO, token.REM:
		zero := b.BVConst(0, tx.Sort.W)
		if i.branch(b.Eq(ty, zero)) {
			panic(runtimeError("integer divide by zero"))
		}
		var o smt.Op
		switch {
		case op == token.QUO && sg:
			o = smt.OSDiv
		case op == token.QUO:
			o = smt.OUDiv
		case sg:
			o = smt.OSRem
		default:
			o = smt.OURem
		}
		return i.mk(b.BVBin(o, tx, ty), k)
	case token.AND:
		return i.mk(b.BVBin(smt.OBAnd, tx, ty), k)
	case token.OR:
		return i.mk(b.BVBin(smt.OBOr, tx, ty), k)
	case token.XOR:
		return i.mk(b.BVBin(smt.OBXor, tx, ty), k)
	case token.AND_NOT:
		return i.mk(b.BVBin(smt.OBAnd, tx, b.BVNot(ty)), k)
	case token.EQL:
		return i.mk(b.Eq(tx, ty), types.Bool)
	case token.NEQ:
		return i.mk(b.Not(b.Eq(tx, ty)), types.Bool)
	case token.LSS:
		if sg {
			return i.mk(b.BVCmp(smt.OSLT, tx, ty), types.Bool)
		}
		return i.mk(b.BVCmp(smt.OULT, tx, ty), types.Bool)
	case token.LEQ:
		if sg {
			return i.mk(b.BVCmp(smt.OSLE, tx, ty), types.Bool)
		}
		return i.mk(b.BVCmp(smt.OULE, tx, ty), types.Bool)
	case token.GTR:
		if sg {
			return i.mk(b.BVCmp(smt.OSLT, ty, tx), types.Bool)
		}
		return i.mk(b.BVCmp(smt.OULT, ty, tx), types.Bool)
	case token.GEQ:
		if sg {
			return i.mk(b.BVCmp(smt.OSLE, ty, tx), types.Bool)
		}
		return i.mk(b.BVCmp(smt.OULE, ty, tx), types.Bool)
	}
	panic(fmt.Sprintf("symBinop: unsupported op %s on %T,%T", op, x, y))
}

func (i *interpreter) symShift(op token.Token, x, y value) value {
	b := i.tb
	kx, ky := kindOf(x), kindOf(y)
	tx, ty := i.lift(x), i.lift(y)
	if kindSigned(ky) {
		neg := b.BVCmp(smt.OSLT, ty, b.BVConst(0, ty.Sort.W))
		if i.branch(neg) {
			panic(runtimeError("negative shift amount"))
		}
	}
	wx := tx.Sort.W
	y64 := b.ZExt(ty, 64)
	var x64 *smt.Term
	if kindSigned(kx) {
		x64 = b.SExt(tx, 64)
	} else {
		x64 = b.ZExt(tx, 64)
	}
	var r *smt.Term
	switch {
	case op == token.SHL:
		r = b.BVBin(smt.OShl, x64, y64)
	case kindSigned(kx):
		r = b.BVBin(smt.OAShr, x64, y64)
	default:
		r = b.BVBin(smt.OLShr, x64, y64)
	}
	return i.mk(b.Extract(r, wx-1, 0), kx)
}

func (i *interpreter) symUnop(op token.Token, x *Sym) value {
	b := i.tb
	switch op {
	case token.SUB:
		if x.K == types.Float64 {
			return i.mk(b.FNeg(x.T), x.K)
		}
		return i.mk(b.BVNeg(x.T), x.K)
	case token.NOT:
		return i.mk(b.Not(x.T), types.Bool)
	case token.XOR:
		return i.mk(b.BVNot(x.T), x.K)
	}
	panic(fmt.Sprintf("symUnop: unsupported op %s", op))
}

// symConv converts a symbolic scalar between basic kinds.
func (i *interpreter) symConv(dst types.BasicKind, x *Sym) value {
	b := i.tb
	src := x.K
	if dst == types.Float32 || src == types.Float32 {
		panic("symConv: float32 is not supported symbolically")
	}
	switch {
	case src == types.Float64 && dst == types.Float64:
		return x
	case src == types.Float64:
		return i.mk(b.FToBV(x.T, kindWidth(dst), kindSigned(dst)), dst)
	case dst == types.Float64:
		// int->float of a wide symbolic integer is very expensive to bit-blast.
		// It is abstracted by an uninterpreted function whose exact definition is
		// only asserted when a potential violation has to be confirmed (lazy
		// refinement, see check()).
		exact := b.BVToF(x.T, kindSigned(src))
		if i.ps == nil || x.T.Sort.W < 32 {
			return i.mk(exact, dst)
		}
		nm := fmt.Sprintf("i2f_%v_%d", kindSigned(src), x.T.Sort.W)
		ab := b.UF(nm, smt.FP64, x.T)
		i.ps.lazyDefs = append(i.ps.lazyDefs, b.Eq(ab, exact))
		return i.mk(ab, dst)
	case dst == types.String:
		panic("symConv: integer->string of a symbolic value")
	}
	wd := kindWidth(dst)
	if kindSigned(src) {
		return i.mk(b.SExt(x.T, wd), dst)
	}
	return i.mk(b.ZExt(x.T, wd), dst)
}

// ---------------------------------------------------------------------------
// strings

// strBytes returns the bytes of a string value (shared for sstr!).
func strBytes(v value) []value {
	switch s := v.(type) {
	case string:
		out := make([]value, len(s))
		for i := 0; i < len(s); i++ {
			out[i] = s[i]
		}
		return out
	case sstr:
		return s.b
	}
	panic(fmt.Sprintf("strBytes: not a string: %T", v))
}

func strLen(v value) int {
	switch s := v.(type) {
	case string:
		return len(s)
	case sstr:
		return len(s.b)
	}
	panic(fmt.Sprintf("strLen: not a string: %T", v))
}

func allConcrete(b []value) bool {
	for _, x := range b {
		if _, ok := x.(*Sym); ok {
			return false
		}
	}
	return true
}

func bytesToGo(b []value) string {
	out := make([]byte, len(b))
	for i, x := range b {
		out[i] = x.(uint8)
	}
	return string(out)
}

// normStr snapshots an sstr with concrete bytes into a Go string.
func normStr(v value) value {
	if s, ok := v.(sstr); ok && allConcrete(s.b) {
		return bytesToGo(s.b)
	}
	return v
}

// mkStr copies b into a new string value.
func mkStr(b []value) value {
	if allConcrete(b) {
		return bytesToGo(b)
	}
	c := make([]value, len(b))
	copy(c, b)
	return sstr{c}
}

func isStr(v value) bool {
	switch v.(type) {
	case string, sstr:
		return true
	}
	return false
}

func (i *interpreter) strEqTerm(x, y value) *smt.Term {
	b := i.tb
	bx, by := strBytes(x), strBytes(y)
	if len(bx) != len(by) {
		return b.False
	}
	var cs []*smt.Term
	for k := range bx {
		cs = append(cs, b.Eq(i.lift(bx[k]), i.lift(by[k])))
	}
	return b.And(cs...)
}

// strLtTerm: x < y lexicographically (bytes, then length).
func (i *interpreter) strLtTerm(x, y value) *smt.Term {
	b := i.tb
	bx, by := strBytes(x), strBytes(y)
	n := len(bx)
	if len(by) < n {
		n = len(by)
	}
	lt := b.BoolConst(len(bx) < len(by))
	for k := n - 1; k >= 0; k-- {
		a, c := i.lift(bx[k]), i.lift(by[k])
		lt = b.Ite(b.Eq(a, c), lt, b.BVCmp(smt.OULT, a, c))
	}
	return lt
}

func (i *interpreter) symStrBinop(op token.Token, x, y value) value {
	b := i.tb
	switch op {
	case token.ADD:
		bx, by := strBytes(x), strBytes(y)
		c := make([]value, 0, len(bx)+len(by))
		c = append(c, bx...)
		c = append(c, by...)
		return mkStr(c)
	case token.EQL:
		return i.mk(i.strEqTerm(x, y), types.Bool)
	case token.NEQ:
		return i.mk(b.Not(i.strEqTerm(x, y)), types.Bool)
	case token.LSS:
		return i.mk(i.strLtTerm(x, y), types.Bool)
	case token.GTR:
		return i.mk(i.strLtTerm(y, x), types.Bool)
	case token.LEQ:
		return i.mk(b.Not(i.strLtTerm(y, x)), types.Bool)
	case token.GEQ:
		return i.mk(b.Not(i.strLtTerm(x, y)), types.Bool)
	}
	panic(fmt.Sprintf("symStrBinop: bad op %s", op))
}

// ---------------------------------------------------------------------------
// deep symbolic test and equality

func hasSym(v value) bool {
	switch v := v.(type) {
	case *Sym:
		return true
	case sstr:
		return true // may alias: always take the careful path
	case structure:
		for _, e := range v {
			if hasSym(e) {
				return true
			}
		}
	case array:
		for _, e := range v {
			if hasSym(e) {
				return true
			}
		}
	case iface:
		return hasSym(v.v)
	case tuple:
		for _, e := range v {
			if hasSym(e) {
				return true
			}
		}
	}
	return false
}

// symEq builds the term for x == y at static type t (either may hold symbolic parts).
func (i *interpreter) symEq(t types.Type, x, y value) *smt.Term {
	b := i.tb
	switch xv := x.(type) {
	case *Sym:
		if xv.K == types.Float64 {
			return b.FCmp(smt.OFEq, xv.T, i.lift(y))
		}
		return b.Eq(xv.T, i.lift(y))
	case string, sstr:
		return i.strEqTerm(x, y)
	case structure:
		yv := y.(structure)
		st := t.Underlying().(*types.Struct)
		var cs []*smt.Term
		for k := range xv {
			if st.Field(k).Name() == "_" {
				continue
			}
			cs = append(cs, i.symEq(st.Field(k).Type(), xv[k], yv[k]))
		}
		return b.And(cs...)
	case array:
		yv := y.(array)
		et := t.Underlying().(*types.Array).Elem()
		var cs []*smt.Term
		for k := range xv {
			cs = append(cs, i.symEq(et, xv[k], yv[k]))
		}
		return b.And(cs...)
	case iface:
		yv := y.(iface)
		if !sameType(xv.t, yv.t) {
			return b.False
		}
		if xv.t == nil {
			return b.True
		}
		return i.symEq(xv.t, xv.v, yv.v)
	}
	if _, ok := y.(*Sym); ok {
		return i.symEq(t, y, x)
	}
	if _, ok := y.(sstr); ok {
		return i.strEqTerm(x, y)
	}
	return b.BoolConst(equals(t, x, y))
}

// iteValue merges two values of identical shape under cond.
func (i *interpreter) iteValue(c *smt.Term, x, y value) (value, bool) {
	if c.IsConst() {
		if c.BoolVal() {
			return x, true
		}
		return y, true
	}
	kx, ky := kindOf(x), kindOf(y)
	if kx != types.Invalid && kx == ky && kx != types.Float32 {
		if !isSym(x) && !isSym(y) && x == y {
			return x, true
		}
		return i.mk(i.tb.Ite(c, i.lift(x), i.lift(y)), kx), true
	}
	switch xv := x.(type) {
	case structure:
		yv, ok := y.(structure)
		if !ok || len(xv) != len(yv) {
			return nil, false
		}
		out := make(structure, len(xv))
		for k := range xv {
			v, ok := i.iteValue(c, xv[k], yv[k])
			if !ok {
				return nil, false
			}
			out[k] = v
		}
		return out, true
	case array:
		yv, ok := y.(array)
		if !ok || len(xv) != len(yv) {
			return nil, false
		}
		out := make(array, len(xv))
		for k := range xv {
			v, ok := i.iteValue(c, xv[k], yv[k])
			if !ok {
				return nil, false
			}
			out[k] = v
		}
		return out, true
	case tuple:
		yv, ok := y.(tuple)
		if !ok || len(xv) != len(yv) {
			return nil, false
		}
		out := make(tuple, len(xv))
		for k := range xv {
			v, ok := i.iteValue(c, xv[k], yv[k])
			if !ok {
				return nil, false
			}
			out[k] = v
		}
		return out, true
	case string, sstr:
		if !isStr(y) || strLen(x) != strLen(y) {
			return nil, false
		}
		bx, by := strBytes(x), strBytes(y)
		out := make([]value, len(bx))
		for k := range bx {
			v, ok := i.iteValue(c, bx[k], by[k])
			if !ok {
				return nil, false
			}
			out[k] = v
		}
		return mkStr(out), true
	case *value:
		if yv, ok := y.(*value); ok && xv == yv {
			return x, true
		}
	case iface:
		yv, ok := y.(iface)
		if !ok || !sameType(xv.t, yv.t) {
			return nil, false
		}
		if xv.t == nil {
			return x, true
		}
		v, ok := i.iteValue(c, xv.v, yv.v)
		if !ok {
			return nil, false
		}
		return iface{xv.t, v}, true
	case nil:
		if y == nil {
			return nil, true
		}
	}
	return nil, false
}

// isScalarElem reports whether all elements can be merged by ite-chains.
func scalarElems(base []value) bool {
	for _, e := range base {
		k := kindOf(e)
		if k == types.Invalid || k == types.Float32 {
			return false
		}
	}
	return true
}

// loadSym reads base[idx].
func (i *interpreter) loadSym(p symPtr) value {
	b := i.tb
	n := len(p.base)
	r := p.base[n-1]
	for k := n - 2; k >= 0; k-- {
		v, ok := i.iteValue(b.Eq(p.idx, b.BVConst(uint64(k), 64)), p.base[k], r)
		if !ok {
			panic("loadSym: non-mergeable elements")
		}
		r = v
	}
	return r
}

func (i *interpreter) storeSym(p symPtr, v value) {
	b := i.tb
	for k := range p.base {
		nv, ok := i.iteValue(b.Eq(p.idx, b.BVConst(uint64(k), 64)), v, p.base[k])
		if !ok {
			panic("storeSym: non-mergeable elements")
		}
		i.writeCell(&p.base[k], nv)
	}
}

type runtimeError string

func (e runtimeError) Error() string { return "runtime error: " + string(e) }
func (e runtimeError) RuntimeError() {}
