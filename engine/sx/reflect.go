// Copyright 2013 The Go Authors. All rights reserved.
// Use of this source code is governed by a BSD-style
// license that can be found in the LICENSE file.

package sx

// Emulated "reflect" package.
//
// We completely replace the built-in "reflect" package.
// The only thing clients can depend upon are that reflect.Type is an
// interface and reflect.Value is an (opaque) struct.

import (
	"fmt"
	"go/token"
	"go/types"
	"reflect"
	"unsafe"

	"golang.org/x/tools/go/ssa"
)

type opaqueType struct {
	types.Type
	name string
}

func (t *opaqueType) String() string { return t.name }

// A bogus "reflect" type-checker package.  Shared across interpreters.
var reflectTypesPackage = types.NewPackage("reflect", "reflect")

// rtype is the concrete type the interpreter uses to implement the
// reflect.Type interface.
//
// type rtype <opaque>
var rtypeType = makeNamedType("rtype", &opaqueType{nil, "rtype"})

// error is an (interpreted) named type whose underlying type is string.
// The interpreter uses it for all implementations of the built-in error
// interface that it creates.
// We put it in the "reflect" package for expedience.
//
// type error string
var errorType = makeNamedType("error", &opaqueType{nil, "error"})

func makeNamedType(name string, underlying types.Type) *types.Named {
	obj := types.NewTypeName(token.NoPos, reflectTypesPackage, name, nil)
	return types.NewNamed(obj, underlying, nil)
}

func makeReflectValue(t types.Type, v value) value {
	return structure{rtype{t}, v}
}

// Given a reflect.Value, returns its rtype.
func rV2T(v value) rtype {
	return v.(structure)[0].(rtype)
}

// Given a reflect.Value, returns the underlying interpreter value.
func rV2V(v value) value {
	return v.(structure)[1]
}

// makeReflectType boxes up an rtype in a reflect.Type interface.
func makeReflectType(rt rtype) value {
	return iface{rtypeType, rt}
}

func ext۰reflect۰rtype۰Bits(fr *frame, args []value) value {
	// Signature: func (t reflect.rtype) int
	rt := args[0].(rtype).t
	basic, ok := rt.Underlying().(*types.Basic)
	if !ok {
		panic(fmt.Sprintf("reflect.Type.Bits(%T): non-basic type", rt))
	}
	return int(fr.i.sizes.Sizeof(basic)) * 8
}

func ext۰reflect۰rtype۰Elem(fr *frame, args []value) value {
	// Signature: func (t reflect.rtype) reflect.Type
	return makeReflectType(rtype{args[0].(rtype).t.Underlying().(interface {
		Elem() types.Type
	}).Elem()})
}

func ext۰reflect۰rtype۰Field(fr *frame, args []value) value {
	// Signature: func (t reflect.rtype, i int) reflect.StructField
	st := args[0].(rtype).t.Underlying().(*types.Struct)
	i := args[1].(int)
	f := st.Field(i)
	return structure{
		f.Name(),
		f.Pkg().Path(),
		makeReflectType(rtype{f.Type()}),
		st.Tag(i),
		0,         // TODO(adonovan): offset
		[]value{}, // TODO(adonovan): indices
		f.Anonymous(),
	}
}

func ext۰reflect۰rtype۰In(fr *frame, args []value) value {
	// Signature: func (t reflect.rtype, i int) int
	i := args[1].(int)
	return makeReflectType(rtype{args[0].(rtype).t.(*types.Signature).Params().At(i).Type()})
}

func ext۰reflect۰rtype۰Kind(fr *frame, args []value) value {
	// Signature: func (t reflect.rtype) uint
	return uint(reflectKind(args[0].(rtype).t))
}

func ext۰reflect۰rtype۰NumField(fr *frame, args []value) value {
	// Signature: func (t reflect.rtype) int
	return args[0].(rtype).t.Underlying().(*types.Struct).NumFields()
}

func ext۰reflect۰rtype۰NumIn(fr *frame, args []value) value {
	// Signature: func (t reflect.rtype) int
	return args[0].(rtype).t.Underlying().(*types.Signature).Params().Len()
}

func ext۰reflect۰rtype۰NumMethod(fr *frame, args []value) value {
	// Signature: func (t reflect.rtype) int
	return fr.i.prog.MethodSets.MethodSet(args[0].(rtype).t).Len()
}

func ext۰reflect۰rtype۰NumOut(fr *frame, args []value) value {
	// Signature: func (t reflect.rtype) int
	return args[0].(rtype).t.Underlying().(*types.Signature).Results().Len()
}

func ext۰reflect۰rtype۰Out(fr *frame, args []value) value {
	// Signature: func (t reflect.rtype, i int) int
	i := args[1].(int)
	return makeReflectType(rtype{args[0].(rtype).t.Underlying().(*types.Signature).Results().At(i).Type()})
}

func ext۰reflect۰rtype۰Size(fr *frame, args []value) value {
	// Signature: func (t reflect.rtype) uintptr
	return uintptr(fr.i.sizes.Sizeof(args[0].(rtype).t))
}

func ext۰reflect۰rtype۰String(fr *frame, args []value) value {
	// Signature: func (t reflect.rtype) string
	return args[0].(rtype).t.String()
}

func ext۰reflect۰New(fr *frame, args []value) value {
	// Signature: func (t reflect.Type) reflect.Value
	t := args[0].(iface).v.(rtype).t
	alloc := zero(t)
	return makeReflectValue(types.NewPointer(t), &alloc)
}

func ext۰reflect۰SliceOf(fr *frame, args []value) value {
	// Signature: func (t reflect.rtype) Type
	return makeReflectType(rtype{types.NewSlice(args[0].(iface).v.(rtype).t)})
}

func ext۰reflect۰TypeOf(fr *frame, args []value) value {
	// Signature: func (t reflect.rtype) Type
	if args[0].(iface).t == nil {
		return iface{} // reflect.TypeOf(nil) is a nil Type
	}
	return makeReflectType(rtype{args[0].(iface).t})
}

func ext۰reflect۰ValueOf(fr *frame, args []value) value {
	// Signature: func (interface{}) reflect.Value
	itf := args[0].(iface)
	return makeReflectValue(itf.t, itf.v)
}

func ext۰reflect۰Zero(fr *frame, args []value) value {
	// Signature: func (t reflect.Type) reflect.Value
	t := args[0].(iface).v.(rtype).t
	return makeReflectValue(t, zero(t))
}

func reflectKind(t types.Type) reflect.Kind {
	switch t := t.(type) {
	case *types.Named, *types.Alias:
		return reflectKind(t.Underlying())
	case *types.Basic:
		switch t.Kind() {
		case types.Bool:
			return reflect.Bool
		case types.Int:
			return reflect.Int
		case types.Int8:
			return reflect.Int8
		case types.Int16:
			return reflect.Int16
		case types.Int32:
			return reflect.Int32
		case types.Int64:
			return reflect.Int64
		case types.Uint:
			return reflect.Uint
		case types.Uint8:
			return reflect.Uint8
		case types.Uint16:
			return reflect.Uint16
		case types.Uint32:
			return reflect.Uint32
		case types.Uint64:
			return reflect.Uint64
		case types.Uintptr:
			return reflect.Uintptr
		case types.Float32:
			return reflect.Float32
		case types.Float64:
			return reflect.Float64
		case types.Complex64:
			return reflect.Complex64
		case types.Complex128:
			return reflect.Complex128
		case types.String:
			return reflect.String
		case types.UnsafePointer:
			return reflect.UnsafePointer
		}
	case *types.Array:
		return reflect.Array
	case *types.Chan:
		return reflect.Chan
	case *types.Signature:
		return reflect.Func
	case *types.Interface:
		return reflect.Interface
	case *types.Map:
		return reflect.Map
	case *types.Pointer:
		return reflect.Ptr
	case *types.Slice:
		return reflect.Slice
	case *types.Struct:
		return reflect.Struct
	}
	panic(fmt.Sprint("unexpected type: ", t))
}

func ext۰reflect۰Value۰Kind(fr *frame, args []value) value {
	// Signature: func (reflect.Value) uint
	return uint(reflectKind(rV2T(args[0]).t))
}

func ext۰reflect۰Value۰String(fr *frame, args []value) value {
	// Signature: func (reflect.Value) string
	return toString(rV2V(args[0]))
}

func ext۰reflect۰Value۰Type(fr *frame, args []value) value {
	// Signature: func (reflect.Value) reflect.Type
	return makeReflectType(rV2T(args[0]))
}

func ext۰reflect۰Value۰Uint(fr *frame, args []value) value {
	// Signature: func (reflect.Value) uint64
	switch v := rV2V(args[0]).(type) {
	case uint:
		return uint64(v)
	case uint8:
		return uint64(v)
	case uint16:
		return uint64(v)
	case uint32:
		return uint64(v)
	case uint64:
		return uint64(v)
	case uintptr:
		return uint64(v)
	}
	panic("reflect.Value.Uint")
}

func ext۰reflect۰Value۰Len(fr *frame, args []value) value {
	// Signature: func (reflect.Value) int
	switch v := rV2V(args[0]).(type) {
	case string:
		return len(v)
	case array:
		return len(v)
	case chan value:
		return cap(v)
	case []value:
		return len(v)
	case *omap:
		return v.len()
	default:
		panic(fmt.Sprintf("reflect.(Value).Len(%v)", v))
	}
}

func ext۰reflect۰Value۰MapIndex(fr *frame, args []value) value {
	// Signature: func (reflect.Value) Value
	tValue := rV2T(args[0]).t.Underlying().(*types.Map).Key()
	k := rV2V(args[1])
	switch m := rV2V(args[0]).(type) {
	case *omap:
		if v, ok := m.lookup(k); ok {
			return makeReflectValue(tValue, v)
		}

	default:
		panic(fmt.Sprintf("(reflect.Value).MapIndex(%T, %T)", m, k))
	}
	return makeReflectValue(nil, nil)
}

func ext۰reflect۰Value۰MapKeys(fr *frame, args []value) value {
	// Signature: func (reflect.Value) []Value
	var keys []value
	tKey := rV2T(args[0]).t.Underlying().(*types.Map).Key()
	switch v := rV2V(args[0]).(type) {
	case *omap:
		if v != nil {
			for _, e := range v.entries {
				if e.live {
					keys = append(keys, makeReflectValue(tKey, e.key))
				}
			}
		}

	default:
		panic(fmt.Sprintf("(reflect.Value).MapKeys(%T)", v))
	}
	return keys
}

func ext۰reflect۰Value۰NumField(fr *frame, args []value) value {
	// Signature: func (reflect.Value) int
	return len(rV2V(args[0]).(structure))
}

func ext۰reflect۰Value۰NumMethod(fr *frame, args []value) value {
	// Signature: func (reflect.Value) int
	return fr.i.prog.MethodSets.MethodSet(rV2T(args[0]).t).Len()
}

func ext۰reflect۰Value۰Pointer(fr *frame, args []value) value {
	// Signature: func (v reflect.Value) uintptr
	switch v := rV2V(args[0]).(type) {
	case *value:
		return uintptr(unsafe.Pointer(v))
	case chan value:
		return reflect.ValueOf(v).Pointer()
	case []value:
		return reflect.ValueOf(v).Pointer()
	case *omap:
		return uintptr(unsafe.Pointer(v))
	case *ssa.Function:
		return uintptr(unsafe.Pointer(v))
	case *closure:
		return uintptr(unsafe.Pointer(v))
	default:
		panic(fmt.Sprintf("reflect.(Value).Pointer(%T)", v))
	}
}

func ext۰reflect۰Value۰Index(fr *frame, args []value) value {
	// Signature: func (v reflect.Value, i int) Value
	i := args[1].(int)
	t := rV2T(args[0]).t.Underlying()
	switch v := rV2V(args[0]).(type) {
	case array:
		return makeReflectValue(t.(*types.Array).Elem(), v[i])
	case []value:
		return makeReflectValue(t.(*types.Slice).Elem(), v[i])
	default:
		panic(fmt.Sprintf("reflect.(Value).Index(%T)", v))
	}
}

func ext۰reflect۰Value۰Bool(fr *frame, args []value) value {
	// Signature: func (reflect.Value) bool
	return rV2V(args[0]).(bool)
}

func ext۰reflect۰Value۰CanAddr(fr *frame, args []value) value {
	// Signature: func (v reflect.Value) bool
	// Always false for our representation.
	return false
}

func ext۰reflect۰Value۰CanInterface(fr *frame, args []value) value {
	// Signature: func (v reflect.Value) bool
	// Always true for our representation.
	return true
}

func ext۰reflect۰Value۰Elem(fr *frame, args []value) value {
	// Signature: func (v reflect.Value) reflect.Value
	switch x := rV2V(args[0]).(type) {
	case iface:
		return makeReflectValue(x.t, x.v)
	case *value:
		var v value
		if x != nil {
			v = *x
		}
		return makeReflectValue(rV2T(args[0]).t.Underlying().(*types.Pointer).Elem(), v)
	default:
		panic(fmt.Sprintf("reflect.(Value).Elem(%T)", x))
	}
}

func ext۰reflect۰Value۰Field(fr *frame, args []value) value {
	// Signature: func (v reflect.Value, i int) reflect.Value
	v := args[0]
	i := args[1].(int)
	return makeReflectValue(rV2T(v).t.Underlying().(*types.Struct).Field(i).Type(), rV2V(v).(structure)[i])
}

func ext۰reflect۰Value۰Float(fr *frame, args []value) value {
	// Signature: func (reflect.Value) float64
	switch v := rV2V(args[0]).(type) {
	case float32:
		return float64(v)
	case float64:
		return float64(v)
	}
	panic("reflect.Value.Float")
}

func ext۰reflect۰Value۰Interface(fr *frame, args []value) value {
	// Signature: func (v reflect.Value) interface{}
	return ext۰reflect۰valueInterface(fr, args)
}

func ext۰reflect۰Value۰Int(fr *frame, args []value) value {
	// Signature: func (reflect.Value) int64
	switch x := rV2V(args[0]).(type) {
	case int:
		return int64(x)
	case int8:
		return int64(x)
	case int16:
		return int64(x)
	case int32:
		return int64(x)
	case int64:
		return x
	default:
		panic(fmt.Sprintf("reflect.(Value).Int(%T)", x))
	}
}

func ext۰reflect۰Value۰IsNil(fr *frame, args []value) value {
	// Signature: func (reflect.Value) bool
	switch x := rV2V(args[0]).(type) {
	case *value:
		return x == nil
	case chan value:
		return x == nil
	case *omap:
		return x == nil
	case iface:
		return x.t == nil
	case []value:
		return x == nil
	case *ssa.Function:
		return x == nil
	case *ssa.Builtin:
		return x == nil
	case *closure:
		return x == nil
	default:
		panic(fmt.Sprintf("reflect.(Value).IsNil(%T)", x))
	}
}

func ext۰reflect۰Value۰IsValid(fr *frame, args []value) value {
	// Signature: func (reflect.Value) bool
	return rV2V(args[0]) != nil
}

func ext۰reflect۰Value۰Set(fr *frame, args []value) value {
	// TODO(adonovan): implement.
	return nil
}

func ext۰reflect۰valueInterface(fr *frame, args []value) value {
	// Signature: func (v reflect.Value, safe bool) interface{}
	v := args[0].(structure)
	return iface{rV2T(v).t, rV2V(v)}
}

func ext۰reflect۰error۰Error(fr *frame, args []value) value {
	return args[0]
}

// newMethod creates a new method of the specified name, package and receiver type.
func newMethod(pkg *ssa.Package, recvType types.Type, name string) *ssa.Function {
	// TODO(adonovan): fix: hack: currently the only part of Signature
	// that is needed is the "pointerness" of Recv.Type, and for
	// now, we'll set it to always be false since we're only
	// concerned with rtype.  Encapsulate this better.
	sig := types.NewSignature(types.NewVar(token.NoPos, nil, "recv", recvType), nil, nil, false)
	fn := pkg.Prog.NewFunction(name, sig, "fake reflect method")
	fn.Pkg = pkg
	return fn
}

func initReflect(i *interpreter) {
	i.reflectPackage = &ssa.Package{
		Prog:    i.prog,
		Pkg:     reflectTypesPackage,
		Members: make(map[string]ssa.Member),
	}

	// Clobber the type-checker's notion of reflect.Value's
	// underlying type so that it more closely matches the fake one
	// (at least in the number of fields---we lie about the type of
	// the rtype field).
	//
	// We must ensure that calls to (ssa.Value).Type() return the
	// fake type so that correct "shape" is used when allocating
	// variables, making zero values, loading, and storing.
	//
	// TODO(adonovan): obviously this is a hack.  We need a cleaner
	// way to fake the reflect package (almost---DeepEqual is fine).
	// One approach would be not to even load its source code, but
	// provide fake source files.  This would guarantee that no bad
	// information leaks into other packages.
	if r := i.prog.ImportedPackage("reflect"); r != nil {
		rV := r.Pkg.Scope().Lookup("Value").Type().(*types.Named)

		// delete bodies of the old methods
		mset := i.prog.MethodSets.MethodSet(rV)
		for j := 0; j < mset.Len(); j++ {
			i.prog.MethodValue(mset.At(j)).Blocks = nil
		}

		tEface := types.NewInterface(nil, nil).Complete()
		rV.SetUnderlying(types.NewStruct([]*types.Var{
			types.NewField(token.NoPos, r.Pkg, "t", tEface, false), // a lie
			types.NewField(token.NoPos, r.Pkg, "v", tEface, false),
		}, nil))
	}

	i.rtypeMethods = methodSet{
		"Bits":      newMethod(i.reflectPackage, rtypeType, "Bits"),
		"Elem":      newMethod(i.reflectPackage, rtypeType, "Elem"),
		"Field":     newMethod(i.reflectPackage, rtypeType, "Field"),
		"In":        newMethod(i.reflectPackage, rtypeType, "In"),
		"Kind":      newMethod(i.reflectPackage, rtypeType, "Kind"),
		"NumField":  newMethod(i.reflectPackage, rtypeType, "NumField"),
		"NumIn":     newMethod(i.reflectPackage, rtypeType, "NumIn"),
		"NumMethod": newMethod(i.reflectPackage, rtypeType, "NumMethod"),
		"NumOut":    newMethod(i.reflectPackage, rtypeType, "NumOut"),
		"Out":       newMethod(i.reflectPackage, rtypeType, "Out"),
		"Size":      newMethod(i.reflectPackage, rtypeType, "Size"),
		"String":    newMethod(i.reflectPackage, rtypeType, "String"),
	}
	i.errorMethods = methodSet{
		"Error": newMethod(i.reflectPackage, errorType, "Error"),
	}
}
