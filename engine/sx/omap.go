package sx

// omap is the interpreter's map: insertion-ordered (deterministic iteration,
// needed for re-execution), keyed by a canonical string of the concrete key.

import (
	"fmt"
	"go/types"
	"strings"

	"verif/engine/smt"
)

type oentry struct {
	key  value
	val  value
	live bool
	sym  bool // key has symbolic parts (not in index)
}

type omap struct {
	keyType types.Type
	index   map[string]int
	entries []oentry
	n       int
	nsym    int
	frozen  string
}

func makeMap(kt types.Type, reserve int64) value {
	return &omap{keyType: kt, index: map[string]int{}}
}

// keyString canonicalises a concrete key. Keys must not contain symbols.
func keyString(sb *strings.Builder, v value) {
	switch x := v.(type) {
	case string:
		fmt.Fprintf(sb, "s%d:%s", len(x), x)
	case sstr:
		if !allConcrete(x.b) {
			panic("map key with symbolic string bytes")
		}
		s := bytesToGo(x.b)
		fmt.Fprintf(sb, "s%d:%s", len(s), s)
	case *Sym:
		panic("map key with symbolic scalar")
	case structure:
		sb.WriteByte('{')
		for _, e := range x {
			keyString(sb, e)
			sb.WriteByte(',')
		}
		sb.WriteByte('}')
	case array:
		sb.WriteByte('[')
		for _, e := range x {
			keyString(sb, e)
			sb.WriteByte(',')
		}
		sb.WriteByte(']')
	case iface:
		if x.t == nil {
			sb.WriteString("nil")
		} else {
			fmt.Fprintf(sb, "i(%s)", x.t.String())
			keyString(sb, x.v)
		}
	case rtype:
		fmt.Fprintf(sb, "rt(%s)", x.t.String())
	case *value:
		fmt.Fprintf(sb, "p%p", x)
	case float64:
		if x != x {
			panic("NaN map key")
		}
		if x == 0 {
			x = 0
		}
		fmt.Fprintf(sb, "f%v", x)
	default:
		fmt.Fprintf(sb, "%T:%v", v, v)
	}
}

func mapKey(v value) string {
	var sb strings.Builder
	keyString(&sb, v)
	return sb.String()
}

func (m *omap) len() int {
	if m == nil {
		return 0
	}
	return m.n
}

func (m *omap) lookup(k value) (value, bool) {
	if m == nil {
		return nil, false
	}
	if ix, ok := m.index[mapKey(k)]; ok {
		return m.entries[ix].val, true
	}
	return nil, false
}

// symKey reports whether a key holds symbolic parts.
func symKey(k value) bool {
	switch x := k.(type) {
	case *Sym:
		return true
	case sstr:
		return !allConcrete(x.b)
	case structure, array, iface:
		return hasSym(k)
	}
	return false
}

// mapLookup is lookup with support for symbolic keys (in k or in the map).
// zeroV is the element zero value.
func (i *interpreter) mapLookup(m *omap, k value, zeroV value) (value, value) {
	if m == nil {
		return zeroV, false
	}
	ksym := symKey(k)
	if !ksym {
		k = normKey(k)
		if ix, ok := m.index[mapKey(k)]; ok {
			return m.entries[ix].val, true
		}
		if m.nsym == 0 {
			return zeroV, false
		}
	}
	// candidates
	var cands []int
	for j, e := range m.entries {
		if !e.live {
			continue
		}
		if ksym || e.sym {
			cands = append(cands, j)
		}
	}
	if len(cands) == 0 {
		return zeroV, false
	}
	// try a merged (fork-free) result
	b := i.tb
	conds := make([]*smt.Term, len(cands))
	for c, j := range cands {
		conds[c] = i.symEq(m.keyType, m.entries[j].key, k)
	}
	res := zeroV
	ok := true
	for c := len(cands) - 1; c >= 0 && ok; c-- {
		res, ok = i.iteValue(conds[c], m.entries[cands[c]].val, res)
	}
	if ok {
		return res, i.mk(b.Or(conds...), types.Bool)
	}
	for c, j := range cands {
		if i.branch(conds[c]) {
			return m.entries[j].val, true
		}
	}
	return zeroV, false
}

func normKey(k value) value {
	if s, ok := k.(sstr); ok && allConcrete(s.b) {
		return bytesToGo(s.b)
	}
	return k
}

// findEntry locates (forking on symbolic equalities) the entry equal to k; -1 if none.
func (i *interpreter) findEntry(m *omap, k value) int {
	ksym := symKey(k)
	if !ksym {
		if ix, ok := m.index[mapKey(k)]; ok {
			return ix
		}
		if m.nsym == 0 {
			return -1
		}
	}
	for j, e := range m.entries {
		if !e.live || !(ksym || e.sym) {
			continue
		}
		if i.branch(i.symEq(m.keyType, e.key, k)) {
			return j
		}
	}
	return -1
}

func (i *interpreter) mapInsert(m *omap, k, v value) {
	if m == nil {
		panic(runtimeError("assignment to entry in nil map"))
	}
	if m.frozen != "" && i.ps != nil && i.ps.frozenOn {
		i.res.FrozenWrites[m.frozen+" (map) @ "+i.curPosString()]++
		i.ps.tags = append(i.ps.tags, "frozen-write:"+m.frozen)
		i.frozenCount++
	}
	k = normKey(k)
	if ix := i.findEntry(m, k); ix >= 0 {
		if i.ps != nil {
			i.ps.undoMaps = append(i.ps.undoMaps, undoMap{m, ix, m.entries[ix].val, true})
		}
		m.entries[ix].val = v
		return
	}
	if i.ps != nil {
		i.ps.undoMaps = append(i.ps.undoMaps, undoMap{m, len(m.entries), nil, false})
	}
	sym := symKey(k)
	if sym {
		m.nsym++
	} else {
		m.index[mapKey(k)] = len(m.entries)
	}
	m.entries = append(m.entries, oentry{key: k, val: v, live: true, sym: sym})
	m.n++
}

func (i *interpreter) mapDelete(m *omap, k value) {
	if m == nil {
		return
	}
	k = normKey(k)
	ix := i.findEntry(m, k)
	if ix < 0 {
		return
	}
	if m.frozen != "" && i.ps != nil && i.ps.frozenOn {
		i.res.FrozenWrites[m.frozen+" (map delete) @ "+i.curPosString()]++
		i.frozenCount++
	}
	if i.ps != nil {
		i.ps.undoMaps = append(i.ps.undoMaps, undoMap{m, ix, m.entries[ix].val, true})
	}
	e := &m.entries[ix]
	e.live = false
	if e.sym {
		m.nsym--
	} else {
		delete(m.index, mapKey(e.key))
	}
	m.n--
}

// restore undoes one update at entry position ix (used by rollback, LIFO order).
func (m *omap) restore(ix int, old value, had bool) {
	if had {
		e := &m.entries[ix]
		if !e.live {
			e.live = true
			if e.sym {
				m.nsym++
			} else {
				m.index[mapKey(e.key)] = ix
			}
			m.n++
		}
		e.val = old
		return
	}
	// was inserted at ix == len-1 in LIFO order
	e := &m.entries[ix]
	if e.live {
		if e.sym {
			m.nsym--
		} else {
			delete(m.index, mapKey(e.key))
		}
		m.n--
	}
	m.entries = m.entries[:ix]
}

type omapIter struct {
	m   *omap
	pos int
}

func (it *omapIter) next() tuple {
	if it.m != nil {
		for it.pos < len(it.m.entries) {
			e := it.m.entries[it.pos]
			it.pos++
			if e.live {
				return tuple{true, e.key, e.val}
			}
		}
	}
	return tuple{false, nil, nil}
}
