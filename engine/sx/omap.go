package sx

// omap is the interpreter's map: insertion-ordered (deterministic iteration,
// needed for re-execution), keyed by a canonical string of the concrete key.

import (
	"fmt"
	"go/types"
	"strings"
)

type oentry struct {
	key  value
	val  value
	live bool
}

type omap struct {
	keyType types.Type
	index   map[string]int
	entries []oentry
	n       int
	frozen  string
}

func makeMap(kt types.Type, reserve int64) value {
	return &omap{keyType: kt, index: map[string]int{}}
}

// keyString canonicalises a concrete key. Keys must not contain symbols.
func keyString(sb *strings.Builder, v value) {
	switch x := v.(type) {
	case string:
		fmt.Fprintf(sb, "s%d:%s", len(x), x)
	case sstr:
		if !allConcrete(x.b) {
			panic("map key with symbolic string bytes")
		}
		s := bytesToGo(x.b)
		fmt.Fprintf(sb, "s%d:%s", len(s), s)
	case *Sym:
		panic("map key with symbolic scalar")
	case structure:
		sb.WriteByte('{')
		for _, e := range x {
			keyString(sb, e)
			sb.WriteByte(',')
		}
		sb.WriteByte('}')
	case array:
		sb.WriteByte('[')
		for _, e := range x {
			keyString(sb, e)
			sb.WriteByte(',')
		}
		sb.WriteByte(']')
	case iface:
		if x.t == nil {
			sb.WriteString("nil")
		} else {
			fmt.Fprintf(sb, "i(%s)", x.t.String())
			keyString(sb, x.v)
		}
	case rtype:
		fmt.Fprintf(sb, "rt(%s)", x.t.String())
	case *value:
		fmt.Fprintf(sb, "p%p", x)
	case float64:
		if x != x {
			panic("NaN map key")
		}
		if x == 0 {
			x = 0
		}
		fmt.Fprintf(sb, "f%v", x)
	default:
		fmt.Fprintf(sb, "%T:%v", v, v)
	}
}

func mapKey(v value) string {
	var sb strings.Builder
	keyString(&sb, v)
	return sb.String()
}

func (m *omap) len() int {
	if m == nil {
		return 0
	}
	return m.n
}

func (m *omap) lookup(k value) (value, bool) {
	if m == nil {
		return nil, false
	}
	if ix, ok := m.index[mapKey(k)]; ok {
		return m.entries[ix].val, true
	}
	return nil, false
}

func (i *interpreter) mapInsert(m *omap, k, v value) {
	if m == nil {
		panic(runtimeError("assignment to entry in nil map"))
	}
	ks := mapKey(k)
	if m.frozen != "" && i.ps != nil && i.ps.frozenOn {
		i.res.FrozenWrites[m.frozen+" (map) @ "+i.curPosString()]++
		i.ps.tags = append(i.ps.tags, "frozen-write:"+m.frozen)
		i.frozenCount++
	}
	if ix, ok := m.index[ks]; ok {
		if i.ps != nil {
			i.ps.undoMaps = append(i.ps.undoMaps, undoMap{m, k, m.entries[ix].val, true})
		}
		m.entries[ix].val = v
		return
	}
	if i.ps != nil {
		i.ps.undoMaps = append(i.ps.undoMaps, undoMap{m, k, nil, false})
	}
	m.index[ks] = len(m.entries)
	m.entries = append(m.entries, oentry{key: k, val: v, live: true})
	m.n++
}

func (i *interpreter) mapDelete(m *omap, k value) {
	if m == nil {
		return
	}
	ks := mapKey(k)
	ix, ok := m.index[ks]
	if !ok {
		return
	}
	if m.frozen != "" && i.ps != nil && i.ps.frozenOn {
		i.res.FrozenWrites[m.frozen+" (map delete) @ "+i.curPosString()]++
		i.frozenCount++
	}
	if i.ps != nil {
		i.ps.undoMaps = append(i.ps.undoMaps, undoMap{m, k, m.entries[ix].val, true})
	}
	m.entries[ix].live = false
	delete(m.index, ks)
	m.n--
}

// restore undoes one update (used by rollback, LIFO order).
func (m *omap) restore(k, old value, had bool) {
	ks := mapKey(k)
	ix, ok := m.index[ks]
	if had {
		if ok {
			m.entries[ix].val = old
			return
		}
		// was deleted: revive (order may differ from the original; acceptable
		// because a revived entry only occurs for init-time maps that a path deleted from)
		for j := range m.entries {
			if !m.entries[j].live && mapKey(m.entries[j].key) == ks {
				m.entries[j].live = true
				m.entries[j].val = old
				m.index[ks] = j
				m.n++
				return
			}
		}
		m.index[ks] = len(m.entries)
		m.entries = append(m.entries, oentry{key: k, val: old, live: true})
		m.n++
		return
	}
	if ok {
		// was inserted: it is the last live entry in LIFO order
		m.entries[ix].live = false
		delete(m.index, ks)
		m.n--
		for len(m.entries) > 0 && !m.entries[len(m.entries)-1].live {
			m.entries = m.entries[:len(m.entries)-1]
		}
	}
}

type omapIter struct {
	m   *omap
	pos int
}

func (it *omapIter) next() tuple {
	if it.m != nil {
		for it.pos < len(it.m.entries) {
			e := it.m.entries[it.pos]
			it.pos++
			if e.live {
				return tuple{true, e.key, e.val}
			}
		}
	}
	return tuple{false, nil, nil}
}
