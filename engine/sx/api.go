package sx

import (
	"golang.org/x/tools/go/ssa"
)

// Run explores one harness instance symbolically.
func (e *Engine) Run(fn *ssa.Function, name string, params map[string]string, lim Limits) *JobResult {
	e.i.concreteMode = false
	return e.i.RunJob(fn, name, params, lim)
}

// RunConcrete executes the harness once with the given input vector
// (the concrete twin used for translation validation and model checking of models).
func (e *Engine) RunConcrete(fn *ssa.Function, name string, params map[string]string, inputs []uint64, uf []UFEntry, lim Limits) *JobResult {
	e.i.concreteMode = true
	e.i.concreteInputs = inputs
	e.i.concreteUF = uf
	defer func() { e.i.concreteMode = false }()
	return e.i.RunJob(fn, name, params, lim)
}

// SetReachAlways makes every Reach re-check satisfiability (per path).
func (e *Engine) SetReachAlways(b bool) { e.i.reachAlways = b }

func (e *Engine) Terms() int { return e.i.tb.NumTerms() }
