package sx

// Path exploration by re-execution: a path is a vector of decisions; each run
// follows a prefix and extends it, pushing the untaken alternatives.

import (
	"fmt"
	"go/token"
	"go/types"
	"os"
	"runtime"
	"sort"
	"strings"
	"time"

	"golang.org/x/tools/go/ssa"
	"verif/engine/smt"
)

type decKind uint8

const (
	dBranch decKind = iota
	dConc
)

type decision struct {
	kind   decKind
	taken  bool     // dBranch
	forced bool     // only this outcome was feasible: nothing to assert
	val    uint64   // dConc chosen value (valid if hasVal)
	hasVal bool     // dConc
	excl   []uint64 // dConc: values excluded (already explored elsewhere)
}

// control-flow panics used to end a path
type pathEnd struct{ reason string }

type inputRec struct {
	Kind string // "int","bool","byte","u32","u64","f64"
	T    *smt.Term
}

type ufApp struct {
	Name string
	Args []*smt.Term
	Res  *smt.Term
}

// Violation is one failed obligation with a model.
type Violation struct {
	Harness string            `json:"harness"`
	Params  map[string]string `json:"params"`
	Label   string            `json:"label"`
	Kind    string            `json:"kind"` // check | panic | frozen-write
	Msg     string            `json:"msg"`
	Inputs  []uint64          `json:"inputs"`
	Kinds   []string          `json:"kinds"`
	UF      []UFEntry         `json:"uf,omitempty"`
	Pos     string            `json:"pos,omitempty"`
	Tags    []string          `json:"tags,omitempty"`
}

type UFEntry struct {
	Name string   `json:"name"`
	Args []uint64 `json:"args"`
	Res  uint64   `json:"res"`
}

// JobResult aggregates the exploration of one harness instance.
type JobResult struct {
	Harness       string
	Params        map[string]string
	Paths         int
	DeadPaths     int
	Steps         int64
	Checks        int // obligations issued (per path)
	Discharged    int
	Trivial       int // concrete-true checks
	Violations    []Violation
	Inconclusive  []string
	Reached       map[string]int
	Forks         int
	Concretized   int
	Queries       int
	SolverTime    time.Duration
	Wall          time.Duration
	Unwind        int
	Funcs         map[string]bool
	Stubs         map[string]int
	FrozenWrites  map[string]int
	GlobalWrites  map[string]int
	Truncated     bool
	ExpectedPanic int
	Refinements   int
	Observed      [][]string // concrete-mode observations
	InputKinds      []string // concrete mode: kinds of the inputs consumed
	ConcreteOutcome string   // concrete mode: pass | check-failed L | assume-failed | panic ... |obs| ...
}

type pathState struct {
	decisions []decision
	dpos      int
	trace     []decision // decisions actually taken in this run
	inputs    []inputRec
	ufApps    []ufApp
	steps     int64
	frozen    map[*value]string
	frozenOn  bool
	undo      []undoRec
	undoMaps  []undoMap
	expectPanic string
	tags      []string
	observed  []string
	assumeFailed bool
	lazyDefs     []*smt.Term // exact definitions of abstracted operations
	lazyDone     int
	fbits        map[*smt.Term]*smt.Term
	realDigits   bool
	csvRecords   [][]value
	csvModel     bool
	jsonDecode   value // harness closure standing in for encoding/json's decoder (vx.ModelJSONDecoder)
	jsonReader   value
	pools        map[*value][]value // sync.Pool model: objects Put on this path, per pool
	released     map[*value]string // cells reachable from objects handed to sync.Pool.Put (use-after-release monitor)
	jsonFactory  value // vx.ModelJSONStream: harness factory for a stream object
	jsonStream   value // the current stream object (iface)
	lastRegexp   string
	sharedWrites int
	sql          *sqlScript
	hashBits     int
	hashAllowed  []uint64
}

type undoRec struct {
	addr *value
	old  value
}
type undoMap struct {
	m   *omap
	ix  int
	old value
	had bool
}

// Limits for one job.
type Limits struct {
	MaxPaths   int
	MaxSteps   int64 // per path
	MaxFan     int   // concretisation fan-out per site
	Deadline   time.Time
	StopOnFirst bool
}

func (i *interpreter) curPosString() string {
	if i.curInstr == nil {
		return ""
	}
	p := i.prog.Fset.Position(i.curInstr.Pos())
	fn := ""
	if i.curInstr.Parent() != nil {
		fn = i.curInstr.Parent().String()
	}
	if !p.IsValid() {
		return fn
	}
	return fmt.Sprintf("%s:%d (%s)", shortFile(p.Filename), p.Line, fn)
}

func shortFile(f string) string {
	if k := strings.Index(f, "/repo/"); k >= 0 {
		return f[k+6:]
	}
	if k := strings.Index(f, "/src/"); k >= 0 {
		return f[k+5:]
	}
	return f
}

// branch decides the outcome of a symbolic condition.
func (i *interpreter) branch(c *smt.Term) bool {
	if c.IsConst() {
		return c.BoolVal()
	}
	if i.concreteMode {
		panic("branch on symbolic term in concrete mode")
	}
	ps := i.ps
	if ps.dpos < len(ps.decisions) {
		d := ps.decisions[ps.dpos]
		ps.dpos++
		if d.kind != dBranch {
			panic(pathEnd{"internal: decision kind mismatch (branch)"})
		}
		if !d.forced {
			if d.taken {
				i.sol.Assert(c)
			} else {
				i.sol.Assert(i.tb.Not(c))
			}
		}
		ps.trace = append(ps.trace, d)
		return d.taken
	}
	nc := i.tb.Not(c)
	rT := i.solCheck(c)
	var rF smt.Result
	if rT == smt.Unsat {
		rF = smt.Sat // unless the path itself is dead, which later queries reveal
	} else {
		rF = i.solCheck(nc)
	}
	if rT == smt.Unknown || rF == smt.Unknown {
		i.res.Inconclusive = append(i.res.Inconclusive, "feasibility unknown at "+i.curPosString())
	}
	canT, canF := rT != smt.Unsat, rF != smt.Unsat
	var d decision
	switch {
	case canT && canF:
		i.res.Forks++
		alt := append(append([]decision{}, ps.trace...), decision{kind: dBranch, taken: false})
		i.work = append(i.work, alt)
		d = decision{kind: dBranch, taken: true}
		i.sol.Assert(c)
	case canT:
		d = decision{kind: dBranch, taken: true, forced: true}
	case canF:
		d = decision{kind: dBranch, taken: false, forced: true}
	default:
		panic(pathEnd{"dead"})
	}
	ps.dpos++
	ps.decisions = append(ps.decisions, d)
	ps.trace = append(ps.trace, d)
	return d.taken
}

// concretize forces a concrete value for term t (any BV sort) by forking over
// its feasible values.
func (i *interpreter) concretize(t *smt.Term) uint64 {
	if t.IsConst() {
		return t.V
	}
	if i.concreteMode {
		panic("concretize on symbolic term in concrete mode")
	}
	if t.Sort.K == smt.KBool {
		if i.branch(t) {
			return 1
		}
		return 0
	}
	ps := i.ps
	b := i.tb
	w := t.Sort.W
	assertExcl := func(ex []uint64) {
		for _, v := range ex {
			i.sol.Assert(b.Not(b.Eq(t, b.BVConst(v, w))))
		}
	}
	var d decision
	if ps.dpos < len(ps.decisions) {
		d = ps.decisions[ps.dpos]
		if d.kind != dConc {
			panic(pathEnd{"internal: decision kind mismatch (conc)"})
		}
		if d.hasVal {
			ps.dpos++
			i.sol.Assert(b.Eq(t, b.BVConst(d.val, w)))
			ps.trace = append(ps.trace, d)
			return d.val
		}
		// an alternative: exclusions given, value to be found
		ps.decisions = ps.decisions[:ps.dpos]
	}
	assertExcl(d.excl)
	if len(d.excl) >= i.lim.MaxFan {
		i.res.Inconclusive = append(i.res.Inconclusive, fmt.Sprintf("concretisation fan-out > %d at %s", i.lim.MaxFan, i.curPosString()))
		panic(pathEnd{"fanout"})
	}
	r := i.solCheck()
	if r == smt.Unsat {
		panic(pathEnd{"dead"})
	}
	if r == smt.Unknown {
		i.res.Inconclusive = append(i.res.Inconclusive, "concretisation unknown at "+i.curPosString())
		panic(pathEnd{"unknown"})
	}
	vals, err := i.sol.Values([]*smt.Term{t})
	if err != nil {
		i.res.Inconclusive = append(i.res.Inconclusive, "model read failed: "+err.Error())
		panic(pathEnd{"unknown"})
	}
	v := vals[0]
	i.res.Concretized++
	alt := append(append([]decision{}, ps.trace...), decision{kind: dConc, excl: append(append([]uint64{}, d.excl...), v)})
	i.work = append(i.work, alt)
	nd := decision{kind: dConc, val: v, hasVal: true, excl: d.excl}
	// On replay the exclusions are implied by val; keep only the value.
	nd.excl = nil
	i.sol.Assert(b.Eq(t, b.BVConst(v, w)))
	ps.dpos++
	ps.decisions = append(ps.decisions, nd)
	ps.trace = append(ps.trace, nd)
	return v
}

// concInt concretizes an integer value to int64 (sign per its kind).
func (i *interpreter) concInt(v value) int64 {
	s, ok := v.(*Sym)
	if !ok {
		return asInt64(v)
	}
	u := i.concretize(s.T)
	if kindSigned(s.K) {
		w := kindWidth(s.K)
		sh := uint(64 - w)
		return int64(u<<sh) >> sh
	}
	return int64(u)
}

// concValue concretizes a scalar into a Go value of the same kind.
func (i *interpreter) concValue(v value) value {
	s, ok := v.(*Sym)
	if !ok {
		return v
	}
	if s.K == types.Float64 {
		bits := i.floatBits(s)
		u := i.concretize(i.lift(bits))
		return concreteOfKind(types.Float64, u)
	}
	return concreteOfKind(s.K, i.concretize(s.T))
}

// concString concretizes all bytes of a string value.
func (i *interpreter) concString(v value) string {
	switch s := v.(type) {
	case string:
		return s
	case sstr:
		out := make([]byte, len(s.b))
		for k, x := range s.b {
			out[k] = i.concValue(x).(uint8)
		}
		return string(out)
	}
	panic(fmt.Sprintf("concString: %T", v))
}

// floatBits returns the IEEE bits of a float value as a uint64 value.
func (i *interpreter) floatBits(v value) value {
	switch f := v.(type) {
	case float64:
		return concreteOfKind(types.Uint64, smtFloatBits(f))
	case *Sym:
		return i.mk(i.floatBitsTerm(f.T), types.Uint64)
	}
	panic("floatBits: not a float")
}

// floatBitsTerm maps a float term to a term for its bits. Bits of inputs are
// preserved exactly through ite; for computed floats a (memoised) fresh
// variable constrained by to_fp is used.
func (i *interpreter) floatBitsTerm(t *smt.Term) *smt.Term {
	b := i.tb
	if bv, ok := b.BitsOf(t); ok {
		return bv
	}
	if t.Op == smt.OIte {
		return b.Ite(t.Args[0], i.floatBitsTerm(t.Args[1]), i.floatBitsTerm(t.Args[2]))
	}
	if i.ps.fbits == nil {
		i.ps.fbits = map[*smt.Term]*smt.Term{}
	}
	if bv, ok := i.ps.fbits[t]; ok {
		return bv
	}
	bv := b.Var("fbits", smt.BV(64))
	i.sol.Assert(b.Eq(b.FFromBits(bv), t))
	i.ps.fbits[t] = bv
	return bv
}

// ---------------------------------------------------------------------------
// memory write hooks

func (i *interpreter) writeCell(addr *value, v value) {
	ps := i.ps
	if ps != nil {
		ps.undo = append(ps.undo, undoRec{addr, *addr})
		if len(ps.released) > 0 {
			if what, ok := ps.released[addr]; ok {
				i.noteSharedWrite("use after release (store): " + what)
			}
		}
		if ps.frozenOn {
			if what, ok := ps.frozen[addr]; ok {
				if i.lockDepth > 0 && strings.HasPrefix(what, "package-level ") {
					i.res.FrozenWrites["(synchronised, not counted) "+what+" @ "+i.curPosString()]++
				} else {
					i.res.FrozenWrites[what+" @ "+i.curPosString()]++
					i.frozenHit(addr, v, what)
				}
			}
		}
	}
	*addr = v
}

func (i *interpreter) frozenHit(addr *value, v value, what string) {
	// strict monitor: every write to pre-existing memory is recorded; the
	// harness decides (vx.FrozenWrites) whether that is an obligation.
	i.ps.tags = append(i.ps.tags, "frozen-write:"+what)
	i.frozenCount++
}

func (i *interpreter) rollback() {
	ps := i.ps
	for k := len(ps.undoMaps) - 1; k >= 0; k-- {
		u := ps.undoMaps[k]
		u.m.restore(u.ix, u.old, u.had)
	}
	for k := len(ps.undo) - 1; k >= 0; k-- {
		*ps.undo[k].addr = ps.undo[k].old
	}
	ps.undo = nil
	ps.undoMaps = nil
}

// freezeWalk records every cell reachable from v.
func (i *interpreter) freezeWalk(v value, what string, seen map[interface{}]bool) {
	ps := i.ps
	switch x := v.(type) {
	case *value:
		if x == nil || seen[x] {
			return
		}
		seen[x] = true
		ps.frozen[x] = what
		i.freezeCell(x, what, seen)
	case []value:
		full := x[:cap(x)]
		for k := range full {
			p := &full[k]
			if seen[p] {
				continue
			}
			seen[p] = true
			ps.frozen[p] = what
			i.freezeCell(p, what, seen)
		}
	case structure:
		for k := range x {
			i.freezeWalk(x[k], what, seen)
		}
	case array:
		for k := range x {
			i.freezeWalk(x[k], what, seen)
		}
	case iface:
		i.freezeWalk(x.v, what, seen)
	case sstr:
		i.freezeWalk(x.b, what, seen)
	case *omap:
		if x == nil || seen[x] {
			return
		}
		seen[x] = true
		x.frozen = what
		for _, e := range x.entries {
			if e.live {
				i.freezeWalk(e.val, what, seen)
			}
		}
	case *closure:
		if x == nil || seen[x] {
			return
		}
		seen[x] = true
		for _, e := range x.Env {
			i.freezeWalk(e, what, seen)
		}
	case tuple:
		for k := range x {
			i.freezeWalk(x[k], what, seen)
		}
	}
}

// freezeCell walks inside the aggregate stored at a cell: the sub-cells of a
// struct/array value stored in place are addressable through FieldAddr/IndexAddr.
func (i *interpreter) freezeCell(p *value, what string, seen map[interface{}]bool) {
	switch x := (*p).(type) {
	case structure:
		for k := range x {
			q := &x[k]
			if !seen[q] {
				seen[q] = true
				i.ps.frozen[q] = what
				i.freezeCell(q, what, seen)
			}
		}
	case array:
		for k := range x {
			q := &x[k]
			if !seen[q] {
				seen[q] = true
				i.ps.frozen[q] = what
				i.freezeCell(q, what, seen)
			}
		}
	default:
		i.freezeWalk(*p, what, seen)
	}
}

// ---------------------------------------------------------------------------
// obligations

func (i *interpreter) modelViolation(kind, label, msg string) {
	v := Violation{Harness: i.res.Harness, Params: i.res.Params, Label: label, Kind: kind, Msg: msg, Pos: i.curPosString()}
	v.Tags = append(v.Tags, i.ps.tags...)
	var ts []*smt.Term
	for _, in := range i.ps.inputs {
		ts = append(ts, in.T)
		v.Kinds = append(v.Kinds, in.Kind)
	}
	nIn := len(ts)
	for _, u := range i.ps.ufApps {
		ts = append(ts, u.Args...)
		ts = append(ts, u.Res)
	}
	vals, err := i.sol.Values(ts)
	if err != nil {
		i.res.Inconclusive = append(i.res.Inconclusive, "model read failed for "+label+": "+err.Error())
		return
	}
	v.Inputs = vals[:nIn]
	if v.Inputs == nil {
		v.Inputs = []uint64{}
	}
	p := nIn
	for _, u := range i.ps.ufApps {
		e := UFEntry{Name: u.Name}
		e.Args = append(e.Args, vals[p:p+len(u.Args)]...)
		p += len(u.Args)
		e.Res = vals[p]
		p++
		v.UF = append(v.UF, e)
	}
	i.res.Violations = append(i.res.Violations, v)
}

// check issues the obligation "cond holds here".
func (i *interpreter) check(cond value, label string) {
	i.res.Checks++
	if i.concreteMode {
		if !cond.(bool) {
			i.res.Violations = append(i.res.Violations, Violation{Harness: i.res.Harness, Params: i.res.Params, Label: label, Kind: "check", Msg: "concrete check failed"})
			panic(pathEnd{"check-failed " + label})
		}
		return
	}
	b := i.tb
	var c *smt.Term
	switch x := cond.(type) {
	case bool:
		if x {
			i.res.Trivial++
			i.res.Discharged++
			return
		}
		c = b.False
	case *Sym:
		c = x.T
	}
	vkey := i.violKey(label)
	if i.violated[vkey] >= i.maxViolPerLabel {
		// already reported; keep going under the assumption
		i.sol.Assert(c)
		if c.IsConst() {
			panic(pathEnd{"after-violation"})
		}
		return
	}
	r := i.solCheck(b.Not(c))
	if r == smt.Sat && i.refine() {
		r = i.solCheck(b.Not(c))
	}
	switch r {
	case smt.Unsat:
		i.res.Discharged++
	case smt.Sat:
		i.violated[vkey]++
		i.modelViolation("check", label, "")
	default:
		i.res.Inconclusive = append(i.res.Inconclusive, "unknown verdict for check "+label)
	}
	if c.IsConst() {
		panic(pathEnd{"after-violation"})
	}
	i.sol.Assert(c)
}

// refine asserts the exact definitions of abstracted operations on this path.
// Returns true if anything new was asserted.
func (i *interpreter) refine() bool {
	ps := i.ps
	if ps.lazyDone >= len(ps.lazyDefs) {
		return false
	}
	for _, d := range ps.lazyDefs[ps.lazyDone:] {
		i.sol.Assert(d)
	}
	ps.lazyDone = len(ps.lazyDefs)
	i.res.Refinements++
	return true
}

func (i *interpreter) assume(cond value) {
	switch x := cond.(type) {
	case bool:
		if !x {
			panic(pathEnd{"assume-false"})
		}
	case *Sym:
		if i.concreteMode {
			panic("assume on symbolic term in concrete mode")
		}
		i.sol.Assert(x.T)
	}
}

func (i *interpreter) reach(label string) {
	if i.concreteMode {
		i.res.Reached[label]++
		return
	}
	if i.res.Reached[label] > 0 && !i.reachAlways {
		i.res.Reached[label]++
		return
	}
	if i.solCheck() == smt.Sat {
		i.res.Reached[label]++
	}
}

// ---------------------------------------------------------------------------
// running

// RunJob explores one harness instance.
func (i *interpreter) RunJob(fn *ssa.Function, name string, params map[string]string, lim Limits) *JobResult {
	res := &JobResult{Harness: name, Params: params, Reached: map[string]int{}, Funcs: map[string]bool{}, Stubs: map[string]int{}, FrozenWrites: map[string]int{}, GlobalWrites: map[string]int{}}
	i.res = res
	i.lim = lim
	i.params = params
	i.violated = map[string]int{}
	i.unknowns, i.slow = 0, 0
	i.work = [][]decision{nil}
	t0 := time.Now()
	q0, st0 := i.sol.Queries, i.sol.Time
	for len(i.work) > 0 {
		if res.Paths >= lim.MaxPaths || (!lim.Deadline.IsZero() && time.Now().After(lim.Deadline)) {
			res.Truncated = true
			res.Inconclusive = append(res.Inconclusive, fmt.Sprintf("exploration truncated with %d paths pending", len(i.work)))
			break
		}
		// depth-first: take the most recent alternative
		prefix := i.work[len(i.work)-1]
		i.work = i.work[:len(i.work)-1]
		i.runPath(fn, prefix)
		if lim.StopOnFirst && len(res.Violations) > 0 {
			break
		}
	}
	res.Queries = i.sol.Queries - q0
	res.SolverTime = i.sol.Time - st0
	res.Wall = time.Since(t0)
	i.work = nil
	return res
}

func (i *interpreter) runPath(fn *ssa.Function, prefix []decision) {
	res := i.res
	ps := &pathState{decisions: prefix, frozen: map[*value]string{}}
	i.ps = ps
	i.onceDone = nil
	i.lockDepth = 0
	i.frozenCount = 0
	if !i.concreteMode {
		i.sol.Push()
	}
	dead := false
	outcome := "pass"
	func() {
		defer func() {
			r := recover()
			if r == nil {
				return
			}
			switch p := r.(type) {
			case pathEnd:
				if i.concreteMode {
					outcome = p.reason
					if p.reason == "assume-false" {
						outcome = "assume-failed"
					}
				}
				switch p.reason {
				case "dead", "assume-false":
					dead = true
				case "budget":
					res.Unwind++
					// A feasible path that does not finish within the step budget is a
					// non-termination candidate: hand its model to the native replay, which
					// confirms it (time-out) or shows that only the engine is slow.
					if !i.concreteMode && i.violated[i.violKey("terminates")] < i.maxViolPerLabel && i.solCheck() == smt.Sat {
						i.violated[i.violKey("terminates")]++
						i.modelViolation("budget", "terminates", "step budget exhausted at "+i.curPosString())
					}
					res.Inconclusive = append(res.Inconclusive, "step budget exhausted (unwinding failure) at "+i.curPosString())
				}
			case targetPanic:
				outcome = "panic"
				i.onPanic("panic: " + toString(p.v))
			case runtime.Error:
				outcome = "panic"
				msg := p.Error()
				if _, ok := r.(runtimeError); !ok {
					// A Go runtime error inside the interpreter: either it mirrors
					// a target runtime error (index, nil deref) or an engine bug.
					buf := make([]byte, 16384)
					n := runtime.Stack(buf, false)
					msg += " [host] " + firstFrames(string(buf[:n]))
					if os.Getenv("QSYM_DEBUG") != "" {
						fmt.Fprintf(os.Stderr, "HOST PANIC %v\n%s\n", r, buf[:n])
					}
				}
				i.onPanic(msg)
			case string:
				outcome = "panic"
				i.onPanic("interp: " + p)
			default:
				outcome = "panic"
				i.onPanic(fmt.Sprintf("interp: %v", r))
			}
		}()
		call(i, nil, token.NoPos, fn, nil)
		if ps.expectPanic != "" {
			// harness announced a panic that did not happen
			i.check(false, "expected-panic:"+ps.expectPanic)
		}
	}()
	res.Steps += ps.steps
	if dead {
		res.DeadPaths++
	} else {
		res.Paths++
	}
	if len(ps.observed) > 0 {
		res.Observed = append(res.Observed, ps.observed)
	}
	if i.concreteMode {
		res.InputKinds = nil
		for _, in := range ps.inputs {
			res.InputKinds = append(res.InputKinds, in.Kind)
		}
		res.ConcreteOutcome = outcome + " |obs| " + strings.Join(ps.observed, " ;; ")
	}
	i.rollback()
	if !i.concreteMode {
		i.sol.Pop()
	}
	i.ps = nil
}

func firstFrames(st string) string {
	lines := strings.Split(st, "\n")
	var out []string
	for _, l := range lines {
		if strings.Contains(l, "/sx/") && strings.HasPrefix(l, "\t") {
			out = append(out, strings.TrimSpace(l))
			if len(out) >= 4 {
				break
			}
		}
	}
	return strings.Join(out, " <- ")
}

func (i *interpreter) onPanic(msg string) {
	ps := i.ps
	if ps.expectPanic != "" {
		i.res.ExpectedPanic++
		ps.expectPanic = ""
		return
	}
	if i.concreteMode {
		i.res.Violations = append(i.res.Violations, Violation{Harness: i.res.Harness, Params: i.res.Params, Label: "no-panic", Kind: "panic", Msg: msg, Pos: i.curPosString()})
		return
	}
	label := "no-panic"
	i.res.Checks++
	vkey := i.violKey(label)
	if i.violated[vkey] >= i.maxViolPerLabel {
		return
	}
	r := i.solCheck()
	if r == smt.Sat && i.refine() {
		r = i.solCheck()
	}
	switch r {
	case smt.Sat:
		i.violated[vkey]++
		i.modelViolation("panic", label, msg)
	case smt.Unsat:
		i.res.Discharged++ // path was dead
	default:
		i.res.Inconclusive = append(i.res.Inconclusive, "unknown feasibility of panicking path: "+msg)
	}
}

func (i *interpreter) step() {
	ps := i.ps
	if ps == nil {
		return
	}
	ps.steps++
	if ps.steps > i.lim.MaxSteps && i.lim.MaxSteps > 0 {
		panic(pathEnd{"budget"})
	}
}

func sortedKeys(m map[string]bool) []string {
	var ks []string
	for k := range m {
		ks = append(ks, k)
	}
	sort.Strings(ks)
	return ks
}

var _ = os.Stderr

const maxUnknownsPerJob = 6
const maxSlowPerJob = 12

// solCheck is sol.Check with the watchdog: a dead solver ends the path as inconclusive.
func (i *interpreter) solCheck(assume ...*smt.Term) smt.Result {
	t0 := time.Now()
	r := i.sol.Check(assume...)
	if d := time.Since(t0); r != smt.Unknown && !i.sol.Dead && i.sol.TimeoutMs > 0 && d > time.Duration(i.sol.TimeoutMs)*time.Millisecond/3 {
		// decided, but only just: a job made of such queries is abandoned as well
		i.slow++
		if i.slow > maxSlowPerJob {
			i.res.Truncated = true
			i.res.Inconclusive = append(i.res.Inconclusive, fmt.Sprintf("job abandoned after %d queries that each took more than a third of the solver time-out (last at %s); %d paths pending", i.slow, i.curPosString(), len(i.work)))
			i.work = nil
			panic(pathEnd{"slow-budget"})
		}
	}
	if r == smt.Unknown && !i.sol.Dead {
		// every unknown costs a full solver time-out: a job that keeps producing them is
		// abandoned (reported inconclusive) instead of spending the whole run on it
		i.unknowns++
		if i.unknowns > maxUnknownsPerJob {
			i.res.Truncated = true
			i.res.Inconclusive = append(i.res.Inconclusive, fmt.Sprintf("job abandoned after %d solver time-outs (last at %s); %d paths pending", i.unknowns, i.curPosString(), len(i.work)))
			i.work = nil
			panic(pathEnd{"unknown-budget"})
		}
	}
	if i.sol.Dead {
		i.res.Inconclusive = append(i.res.Inconclusive, "solver watchdog fired (query exceeded the time cap) at "+i.curPosString())
		panic(pathEnd{"solver-dead"})
	}
	return r
}

// violKey: violations are reported once per (label, known-finding class).
func (i *interpreter) violKey(label string) string {
	k := label
	for _, t := range i.ps.tags {
		if strings.HasPrefix(t, "kf:") {
			k += "|" + t
		}
	}
	return k
}
