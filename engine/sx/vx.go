package sx

import (
	"fmt"
	"go/types"
	"strconv"
	"strings"

	"golang.org/x/tools/go/ssa"
	"verif/engine/smt"
)

// freshInput creates the next harness input (symbolic, or the next concrete
// replay value in concrete mode).
func (i *interpreter) freshInput(kind string, k types.BasicKind) value {
	if i.concreteMode {
		var v uint64
		n := len(i.ps.inputs)
		if n < len(i.concreteInputs) {
			v = i.concreteInputs[n]
		}
		i.ps.inputs = append(i.ps.inputs, inputRec{Kind: kind})
		if k == types.Bool {
			return v != 0
		}
		return concreteOfKind(k, v&maskOf(k))
	}
	n := len(i.ps.inputs)
	var t *smt.Term
	name := fmt.Sprintf("in%d_%s", n, kind)
	switch k {
	case types.Bool:
		t = i.tb.NamedVar(name, smt.Bool)
		i.ps.inputs = append(i.ps.inputs, inputRec{Kind: kind, T: t})
		return i.mk(t, k)
	case types.Float64:
		bv := i.tb.NamedVar(name, smt.BV(64))
		i.ps.inputs = append(i.ps.inputs, inputRec{Kind: kind, T: bv})
		return i.mk(i.tb.FFromBits(bv), k)
	}
	t = i.tb.NamedVar(name, smt.BV(kindWidth(k)))
	i.ps.inputs = append(i.ps.inputs, inputRec{Kind: kind, T: t})
	return i.mk(t, k)
}

func maskOf(k types.BasicKind) uint64 {
	w := kindWidth(k)
	if w >= 64 {
		return ^uint64(0)
	}
	return 1<<uint(w) - 1
}

// ufArgs flattens UF arguments exactly like vx.flat does natively.
func (i *interpreter) ufArgs(args []value) []*smt.Term {
	var out []*smt.Term
	b := i.tb
	for _, a := range args {
		it := a.(iface)
		v := it.v
		switch kindOf(v) {
		case types.Bool:
			out = append(out, b.Ite(i.lift(v), b.BVConst(1, 64), b.BVConst(0, 64)))
			continue
		case types.Float64:
			out = append(out, i.lift(i.floatBits(v)))
			continue
		case types.Int32:
			out = append(out, b.ZExt(i.lift(v), 64))
			continue
		case types.Invalid:
		default:
			t := i.lift(v)
			out = append(out, b.ZExt(t, 64))
			continue
		}
		switch x := v.(type) {
		case string, sstr:
			for _, c := range strBytes(x) {
				out = append(out, b.ZExt(i.lift(c), 64))
			}
		case []value:
			for _, c := range x {
				out = append(out, b.ZExt(i.lift(c), 64))
			}
		case *value: // *string
			if x == nil {
				out = append(out, b.BVConst(0, 64))
			} else {
				out = append(out, b.BVConst(1, 64))
				for _, c := range strBytes(*x) {
					out = append(out, b.ZExt(i.lift(c), 64))
				}
			}
		default:
			panic(fmt.Sprintf("vx.UF*: unsupported argument %T", v))
		}
	}
	return out
}

func (i *interpreter) ufCall(name string, args []value, k types.BasicKind) value {
	ts := i.ufArgs(args)
	nm := name + "/" + strconv.Itoa(len(ts))
	if i.concreteMode {
		var key []uint64
		for _, t := range ts {
			key = append(key, t.V)
		}
		var res uint64
	outer:
		for _, e := range i.concreteUF {
			if e.Name != nm || len(e.Args) != len(key) {
				continue
			}
			for j := range key {
				if e.Args[j] != key[j] {
					continue outer
				}
			}
			res = e.Res
			break
		}
		return concreteOfKind(k, res&maskOf(k))
	}
	r := i.tb.UF(nm, smt.BV(64), ts...)
	i.ps.ufApps = append(i.ps.ufApps, ufApp{Name: nm, Args: ts, Res: r})
	b := i.tb
	switch k {
	case types.Bool:
		return i.mk(b.Not(b.Eq(r, b.BVConst(0, 64))), k)
	case types.Float64:
		return i.mk(b.FFromBits(r), k)
	}
	return i.mk(b.Extract(r, kindWidth(k)-1, 0), k)
}

func (i *interpreter) param(name string) string {
	v, ok := i.params[name]
	if !ok {
		panic("vx: missing parameter " + name)
	}
	return v
}

func (i *interpreter) callVX(fr *frame, fn *ssa.Function, args []value) value {
	switch fn.Name() {
	case "Int":
		return i.freshInput("int", types.Int)
	case "Int64":
		return i.freshInput("i64", types.Int64)
	case "Uint32":
		return i.freshInput("u32", types.Uint32)
	case "Uint64":
		return i.freshInput("u64", types.Uint64)
	case "Byte":
		return i.freshInput("byte", types.Uint8)
	case "Bool":
		return i.freshInput("bool", types.Bool)
	case "Float64":
		return i.freshInput("f64", types.Float64)
	case "IntN":
		lo, hi := i.concInt(args[0]), i.concInt(args[1])
		v := i.freshInput("int", types.Int)
		if s, ok := v.(*Sym); ok {
			b := i.tb
			i.sol.Assert(b.And(b.BVCmp(smt.OSLE, b.BVConst(uint64(lo), 64), s.T), b.BVCmp(smt.OSLE, s.T, b.BVConst(uint64(hi), 64))))
		} else if c := int64(v.(int)); c < lo || c > hi {
			panic(pathEnd{"assume-false"})
		}
		return v
	case "Bytes":
		n := i.concInt(args[0])
		out := make([]value, n)
		for k := range out {
			out[k] = i.freshInput("byte", types.Uint8)
		}
		return out
	case "Str":
		n := i.concInt(args[0])
		out := make([]value, n)
		for k := range out {
			out[k] = i.freshInput("byte", types.Uint8)
		}
		return mkStr(out)
	case "Assume":
		i.assume(args[0])
		return nil
	case "Check":
		i.check(args[0], i.concString(args[1]))
		return nil
	case "Reach":
		i.reach(i.concString(args[0]))
		return nil
	case "Tag":
		i.ps.tags = append(i.ps.tags, i.concString(args[0]))
		return nil
	case "Observe":
		if i.concreteMode {
			s := i.concString(args[0]) + "="
			var xs []interface{}
			for _, a := range args[1].([]value) {
				xs = append(xs, hostRender(a.(iface).v))
			}
			i.ps.observed = append(i.ps.observed, s+fmt.Sprint(xs...))
		}
		return nil
	case "ExpectPanic":
		i.ps.expectPanic = i.concString(args[0])
		return nil
	case "UFInt":
		return i.ufCall(i.concString(args[0]), args[1].([]value), types.Int)
	case "UFBool":
		return i.ufCall(i.concString(args[0]), args[1].([]value), types.Bool)
	case "UFU64":
		return i.ufCall(i.concString(args[0]), args[1].([]value), types.Uint64)
	case "UFByte":
		return i.ufCall(i.concString(args[0]), args[1].([]value), types.Uint8)
	case "UFFloat":
		return i.ufCall(i.concString(args[0]), args[1].([]value), types.Float64)
	case "Freeze":
		what := i.concString(args[0])
		seen := map[interface{}]bool{}
		for _, a := range args[1].([]value) {
			i.freezeWalk(a, what, seen)
		}
		i.ps.frozenOn = true
		return nil
	case "Thaw":
		i.ps.frozenOn = false
		i.ps.frozen = map[*value]string{}
		return nil
	case "FrozenWrites":
		return i.frozenCount
	case "SharedWrites":
		return i.ps.sharedWrites
	case "FreezeGlobals":
		// freeze everything reachable from the package-level variables of tobgu/qframe
		seen := map[interface{}]bool{}
		for g, cell := range i.globals {
			if g.Pkg == nil || !strings.Contains(g.Pkg.Pkg.Path(), "tobgu/qframe") || strings.HasSuffix(g.Pkg.Pkg.Path(), "/internal/vx") || strings.HasSuffix(g.Pkg.Pkg.Path(), "/internal/vxsql") {
				continue
			}
			if strings.HasPrefix(g.Name(), "vx") || strings.HasPrefix(g.Name(), "c10") || strings.HasPrefix(g.Name(), "c14") || strings.HasPrefix(g.Name(), "init$") {
				continue // harness globals
			}
			i.freezeWalk(cell, "package-level "+g.String(), seen)
		}
		i.ps.frozenOn = true
		return nil
	case "ParamStr":
		return i.param(i.concString(args[0]))
	case "ParamInt":
		n, err := strconv.Atoi(i.param(i.concString(args[0])))
		if err != nil {
			panic(err.Error())
		}
		return n
	case "ParamBool":
		p := i.param(i.concString(args[0]))
		return p == "true" || p == "1"
	case "HasParam":
		_, ok := i.params[i.concString(args[0])]
		return ok
	case "Symbolic":
		return !i.concreteMode
	case "HarnessName":
		return i.res.Harness
	case "HashModel":
		return tuple{uint64(0), false}
	case "init":
		return nil
	case "And":
		return i.mk(i.tb.And(i.lift(args[0]), i.lift(args[1])), types.Bool)
	case "Or":
		return i.mk(i.tb.Or(i.lift(args[0]), i.lift(args[1])), types.Bool)
	case "Not":
		return i.mk(i.tb.Not(i.lift(args[0])), types.Bool)
	case "Implies":
		return i.mk(i.tb.Implies(i.lift(args[0]), i.lift(args[1])), types.Bool)
	case "IteInt":
		return i.mk(i.tb.Ite(i.lift(args[0]), i.lift(args[1]), i.lift(args[2])), types.Int)
	case "B2I":
		return i.mk(i.tb.Ite(i.lift(args[0]), i.tb.BVConst(1, 64), i.tb.BVConst(0, 64)), types.Int)
	case "ModelCSVWriter":
		i.ps.csvModel = true
		i.ps.csvRecords = nil
		return nil
	case "ModelJSONDecoder":
		i.ps.jsonDecode = args[0]
		return nil
	case "ModelJSONStream":
		i.ps.jsonFactory = args[0]
		return nil
	case "RealDigits":
		i.ps.realDigits = true
		return nil
	case "CSVRecords":
		out := make([]value, len(i.ps.csvRecords))
		for k, r := range i.ps.csvRecords {
			out[k] = append([]value{}, r...)
		}
		return out
	case "LastRegexp":
		return i.ps.lastRegexp
	case "ConstrainHash":
		i.ps.hashBits = int(i.concInt(args[0]))
		i.ps.hashAllowed = nil
		for _, a := range args[1].([]value) {
			i.ps.hashAllowed = append(i.ps.hashAllowed, uint64(i.concInt(a)))
		}
		return nil
	case "LoadBatch", "Select", "Reset":
		return 0
	}
	panic("vx: unknown intrinsic " + fn.Name())
}

func hostRender(v value) interface{} {
	switch x := v.(type) {
	case sstr:
		if allConcrete(x.b) {
			return bytesToGo(x.b)
		}
	case []value:
		var out []interface{}
		for _, e := range x {
			out = append(out, hostRender(e))
		}
		return out
	case *value:
		if x == nil {
			return "<nil>"
		}
		return hostRender(*x)
	case iface:
		return hostRender(x.v)
	}
	return v
}
