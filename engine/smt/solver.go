package smt

import (
	"bufio"
	"fmt"
	"io"
	"os"
	"os/exec"
	"strconv"
	"strings"
	"time"
)

type Result int

const (
	Unsat Result = iota
	Sat
	Unknown
)

func (r Result) String() string { return [...]string{"unsat", "sat", "unknown"}[r] }

// Solver wraps one persistent SMT-LIB2 solver process.
type Solver struct {
	cmd      *exec.Cmd
	in       io.WriteCloser
	out      *bufio.Reader
	lines    chan string
	wq       chan string
	argv     []string
	Restarts int
	Dead     bool
	Em       *Emitter
	Log      io.Writer // optional transcript
	Queries  int
	NSat     int
	NUnsat   int
	NUnknown int
	Errors   int
	Time     time.Duration
	depth    int
	Name     string
	TimeoutMs int
}

// NewSolver starts `z3 -in` (or another binary given by argv).
func NewSolver(timeoutMs int, argv ...string) (*Solver, error) {
	if len(argv) == 0 {
		argv = defaultSolver()
	}
	s := &Solver{Name: argv[0], TimeoutMs: timeoutMs, argv: argv}
	s.Em = NewEmitter(s.send)
	if err := s.start(); err != nil {
		return nil, err
	}
	return s, nil
}

func (s *Solver) start() error {
	cmd := exec.Command(s.argv[0], s.argv[1:]...)
	in, err := cmd.StdinPipe()
	if err != nil {
		return err
	}
	outp, err := cmd.StdoutPipe()
	if err != nil {
		return err
	}
	cmd.Stderr = os.Stderr
	if err := cmd.Start(); err != nil {
		return err
	}
	s.cmd, s.in = cmd, in
	s.out = bufio.NewReaderSize(outp, 1<<16)
	// writes go through a queue drained by a goroutine: a solver that stops reading
	// its input (busy, or stuck) can then never block the engine outside readLine,
	// which is where the watchdog lives
	wq := make(chan string, 1<<20)
	s.wq = wq
	go func() {
		w := bufio.NewWriterSize(in, 1<<16)
		for l := range wq {
			w.WriteString(l)
			w.WriteByte('\n')
			if len(wq) == 0 {
				w.Flush()
			}
		}
	}()
	lines := make(chan string, 64)
	s.lines = lines
	rd := s.out
	go func() {
		for {
			l, err := rd.ReadString('\n')
			if err != nil {
				lines <- "(error \"solver died: " + err.Error() + "\")"
				close(lines)
				return
			}
			l = strings.TrimSpace(l)
			if l != "" {
				lines <- l
			}
		}
	}()
	s.depth = 0
	s.Dead = false
	s.Em.Reset()
	if strings.Contains(s.argv[0], "z3") {
		s.send(fmt.Sprintf("(set-option :timeout %d)", s.TimeoutMs))
	}
	s.send("(set-option :produce-models true)")
	return nil
}

// Restart kills the solver process and starts a fresh one (all assertions lost).
func (s *Solver) Restart() {
	close(s.wq)
	s.in.Close()
	s.cmd.Process.Kill()
	go s.cmd.Wait()
	s.Restarts++
	s.start()
}

func (s *Solver) send(line string) {
	if s.Dead {
		return
	}
	if s.Log != nil {
		fmt.Fprintln(s.Log, line)
	}
	select {
	case s.wq <- line:
	default:
		// queue full: the solver has not been reading for a very long time
		s.Dead = true
	}
}

func (s *Solver) Close() {
	close(s.wq)
	time.Sleep(10 * time.Millisecond)
	s.in.Close()
	done := make(chan struct{})
	go func() { s.cmd.Wait(); close(done) }()
	select {
	case <-done:
	case <-time.After(2 * time.Second):
		s.cmd.Process.Kill()
	}
}

func (s *Solver) Push() {
	if s.Dead {
		s.Restart()
	}
	s.send("(push 1)")
	s.depth++
}
func (s *Solver) Pop() {
	if s.Dead {
		s.Restart()
		return
	}
	if s.depth > 0 {
		s.send("(pop 1)")
		s.depth--
	}
	s.Em.Reset()
}

func (s *Solver) Assert(t *Term) {
	if t.IsConst() && t.BoolVal() {
		return
	}
	r := s.Em.Define(t)
	s.send("(assert " + r + ")")
}

func (s *Solver) readLine() string {
	if s.Dead {
		return "(error \"solver died: watchdog\")"
	}
	select {
	case l, ok := <-s.lines:
		if !ok {
			s.Dead = true
			return "(error \"solver died: eof\")"
		}
		return l
	case <-time.After(time.Duration(s.TimeoutMs)*time.Millisecond + 10*time.Second):
		s.Dead = true
		return "(error \"solver died: watchdog\")"
	}
}

// Check runs check-sat under extra assumptions (Bool terms).
func (s *Solver) Check(assume ...*Term) Result {
	var refs []string
	for _, a := range assume {
		if a.IsConst() {
			if !a.BoolVal() {
				return Unsat
			}
			continue
		}
		refs = append(refs, s.Em.Define(a))
	}
	t0 := time.Now()
	s.Queries++
	if len(refs) == 0 {
		s.send("(check-sat)")
	} else {
		// assumptions must be literals: our refs are constants tN / vars, possibly `true`
		s.send("(check-sat-assuming (" + strings.Join(refs, " ") + "))")
	}
	var res Result
	for {
		l := s.readLine()
		if strings.HasPrefix(l, "(error") {
			s.Errors++
			if s.Log != nil {
				fmt.Fprintln(s.Log, "; "+l)
			}
			if strings.Contains(l, "solver died") {
				res = Unknown
				break
			}
			continue
		}
		switch l {
		case "sat":
			res = Sat
		case "unsat":
			res = Unsat
		default:
			res = Unknown
		}
		break
	}
	s.Time += time.Since(t0)
	switch res {
	case Sat:
		s.NSat++
	case Unsat:
		s.NUnsat++
	default:
		s.NUnknown++
	}
	if s.Log != nil {
		fmt.Fprintln(s.Log, "; -> "+res.String())
	}
	return res
}

// Values returns the model values (as raw 64-bit payloads) of the given terms
// after a Sat answer. Must be called with the same assumptions still "current",
// i.e. immediately after Check.
func (s *Solver) Values(ts []*Term) ([]uint64, error) {
	out := make([]uint64, len(ts))
	var refs []string
	var idx []int
	for i, t := range ts {
		if t.IsConst() {
			out[i] = t.V
			continue
		}
		if t.Sort.K == KFP {
			return nil, fmt.Errorf("Values: FP-sorted term requested; ask for its bits")
		}
		refs = append(refs, s.Em.Define(t))
		idx = append(idx, i)
	}
	if len(refs) == 0 {
		return out, nil
	}
	s.send("(get-value (" + strings.Join(refs, " ") + "))")
	// read a balanced s-expression
	var sb strings.Builder
	depth := 0
	started := false
	for {
		l := s.readLine()
		if strings.HasPrefix(l, "(error") {
			s.Errors++
			return nil, fmt.Errorf("get-value: %s", l)
		}
		sb.WriteString(l)
		sb.WriteByte(' ')
		for _, c := range l {
			if c == '(' {
				depth++
				started = true
			} else if c == ')' {
				depth--
			}
		}
		if started && depth <= 0 {
			break
		}
	}
	toks := tokenize(sb.String())
	// grammar: ( (ref val) (ref val) ... ) where val is #x.. | #b.. | true | false | (_ bvN w)
	p := 0
	expect := func(s string) error {
		if p >= len(toks) || toks[p] != s {
			return fmt.Errorf("get-value parse: expected %q at %d in %v", s, p, toks)
		}
		p++
		return nil
	}
	if err := expect("("); err != nil {
		return nil, err
	}
	for k := range refs {
		if err := expect("("); err != nil {
			return nil, err
		}
		p++ // ref
		if p >= len(toks) {
			return nil, fmt.Errorf("get-value parse: truncated")
		}
		tok := toks[p]
		var v uint64
		switch {
		case tok == "true":
			v = 1
			p++
		case tok == "false":
			v = 0
			p++
		case strings.HasPrefix(tok, "#x"):
			v, _ = strconv.ParseUint(tok[2:], 16, 64)
			p++
		case strings.HasPrefix(tok, "#b"):
			v, _ = strconv.ParseUint(tok[2:], 2, 64)
			p++
		case tok == "(":
			// (_ bv123 64)
			if p+3 < len(toks) && toks[p+1] == "_" && strings.HasPrefix(toks[p+2], "bv") {
				v, _ = strconv.ParseUint(toks[p+2][2:], 10, 64)
				p += 5
			} else {
				return nil, fmt.Errorf("get-value parse: unexpected value at %d in %v", p, toks)
			}
		default:
			return nil, fmt.Errorf("get-value parse: unexpected token %q", tok)
		}
		out[idx[k]] = v
		if err := expect(")"); err != nil {
			return nil, err
		}
	}
	return out, nil
}

func tokenize(s string) []string {
	var toks []string
	i := 0
	for i < len(s) {
		c := s[i]
		switch {
		case c == ' ' || c == '\t' || c == '\n' || c == '\r':
			i++
		case c == '(' || c == ')':
			toks = append(toks, string(c))
			i++
		case c == '|':
			j := i + 1
			for j < len(s) && s[j] != '|' {
				j++
			}
			toks = append(toks, s[i:j+1])
			i = j + 1
		default:
			j := i
			for j < len(s) && !strings.ContainsRune(" \t\n\r()", rune(s[j])) {
				j++
			}
			toks = append(toks, s[i:j])
			i = j
		}
	}
	return toks
}

// defaultSolver prefers the newer z3 (z3-new, 5.x) when it is installed: it is
// far more robust on the string-equality and UF heavy queries of this engine.
func defaultSolver() []string {
	if p, err := exec.LookPath("z3-new"); err == nil {
		return []string{p, "-in"}
	}
	return []string{"z3", "-in"}
}
