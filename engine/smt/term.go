// Package smt is a small hash-consed term DAG with constant folding and an
// SMT-LIB2 printer. Integers are fixed-width bit-vectors (wrapping, as in Go),
// float64 is (_ FloatingPoint 11 53) with RNE rounding.
package smt

import (
	"fmt"
	"math"
	"math/bits"
	"strings"
	"sync/atomic"
)

type Kind uint8

const (
	KBool Kind = iota
	KBV
	KFP // float64 only
)

type Sort struct {
	K Kind
	W int // bit width for KBV
}

var Bool = Sort{K: KBool}
var FP64 = Sort{K: KFP, W: 64}

func BV(w int) Sort { return Sort{K: KBV, W: w} }

func (s Sort) String() string {
	switch s.K {
	case KBool:
		return "Bool"
	case KBV:
		return fmt.Sprintf("(_ BitVec %d)", s.W)
	default:
		return "(_ FloatingPoint 11 53)"
	}
}

type Op uint8

const (
	OVar Op = iota
	OConst
	ONot
	OAnd
	OOr
	OIte
	OEq
	OAdd
	OSub
	OMul
	OUDiv
	OSDiv
	OURem
	OSRem
	OBAnd
	OBOr
	OBXor
	OBNot
	ONeg
	OShl
	OLShr
	OAShr
	OULT
	OULE
	OSLT
	OSLE
	OExtract // I=hi J=lo
	OZExt    // I=extra bits
	OSExt
	OConcat
	OFAdd
	OFSub
	OFMul
	OFDiv
	OFNeg
	OFAbs
	OFLT
	OFLE
	OFEq
	OFIsNaN
	OFToSBV // I = width, RTZ
	OFToUBV
	OSBVToF
	OUBVToF
	OFFromBits
	OUF // Name = function, Sort = result
)

var opName = map[Op]string{
	ONot: "not", OAnd: "and", OOr: "or", OIte: "ite", OEq: "=",
	OAdd: "bvadd", OSub: "bvsub", OMul: "bvmul", OUDiv: "bvudiv", OSDiv: "bvsdiv",
	OURem: "bvurem", OSRem: "bvsrem", OBAnd: "bvand", OBOr: "bvor", OBXor: "bvxor",
	OBNot: "bvnot", ONeg: "bvneg", OShl: "bvshl", OLShr: "bvlshr", OAShr: "bvashr",
	OULT: "bvult", OULE: "bvule", OSLT: "bvslt", OSLE: "bvsle", OConcat: "concat",
	OFNeg: "fp.neg", OFAbs: "fp.abs", OFLT: "fp.lt", OFLE: "fp.leq", OFEq: "fp.eq",
	OFIsNaN: "fp.isNaN",
}

type Term struct {
	lo, hi uint64 // unsigned value range (valid if rng)
	rng    bool
	ID    int
	Op    Op
	Args  []*Term
	Sort  Sort
	V     uint64 // constant payload (bv value, bool 0/1, float bits)
	Name  string
	I, J  int
	epoch int
}

func (t *Term) IsConst() bool { return t.Op == OConst }
func (t *Term) BoolVal() bool { return t.V != 0 }

// Builder owns a term table. Not safe for concurrent use.
type Builder struct {
	table map[string]*Term
	next  int
	nvar  int
	True  *Term
	False *Term
}

func NewBuilder() *Builder {
	b := &Builder{table: map[string]*Term{}}
	b.True = b.mk(&Term{Op: OConst, Sort: Bool, V: 1})
	b.False = b.mk(&Term{Op: OConst, Sort: Bool, V: 0})
	return b
}

func (b *Builder) NumTerms() int { return b.next }

func (b *Builder) mk(t *Term) *Term {
	var sb strings.Builder
	fmt.Fprintf(&sb, "%d|%d.%d|%d|%d.%d|%s|", t.Op, t.Sort.K, t.Sort.W, t.V, t.I, t.J, t.Name)
	for _, a := range t.Args {
		fmt.Fprintf(&sb, "%d,", a.ID)
	}
	k := sb.String()
	if o, ok := b.table[k]; ok {
		return o
	}
	t.ID = b.next
	b.next++
	b.table[k] = t
	return t
}

func mask(w int) uint64 {
	if w >= 64 {
		return ^uint64(0)
	}
	return (uint64(1) << uint(w)) - 1
}

func sext(v uint64, w int) int64 {
	if w >= 64 {
		return int64(v)
	}
	sh := uint(64 - w)
	return int64(v<<sh) >> sh
}

func (b *Builder) Var(name string, s Sort) *Term {
	b.nvar++
	return b.mk(&Term{Op: OVar, Sort: s, Name: fmt.Sprintf("%s!%d", name, b.nvar)})
}

// NamedVar returns the variable with exactly this name (shared if it exists).
func (b *Builder) NamedVar(name string, s Sort) *Term {
	return b.mk(&Term{Op: OVar, Sort: s, Name: name})
}

func (b *Builder) BVConst(v uint64, w int) *Term {
	return b.mk(&Term{Op: OConst, Sort: BV(w), V: v & mask(w)})
}
func (b *Builder) BoolConst(v bool) *Term {
	if v {
		return b.True
	}
	return b.False
}
func (b *Builder) FPConst(f float64) *Term {
	return b.mk(&Term{Op: OConst, Sort: FP64, V: math.Float64bits(f)})
}

func (b *Builder) Not(x *Term) *Term {
	if x.IsConst() {
		return b.BoolConst(!x.BoolVal())
	}
	if x.Op == ONot {
		return x.Args[0]
	}
	return b.mk(&Term{Op: ONot, Sort: Bool, Args: []*Term{x}})
}

func (b *Builder) And(xs ...*Term) *Term {
	var out []*Term
	for _, x := range xs {
		if x.IsConst() {
			if !x.BoolVal() {
				return b.False
			}
			continue
		}
		dup := false
		for _, o := range out {
			if o == x {
				dup = true
			}
		}
		if !dup {
			out = append(out, x)
		}
	}
	switch len(out) {
	case 0:
		return b.True
	case 1:
		return out[0]
	}
	for _, x := range out {
		if x.Op == ONot {
			for _, y := range out {
				if y == x.Args[0] {
					return b.False
				}
			}
		}
	}
	return b.mk(&Term{Op: OAnd, Sort: Bool, Args: out})
}

func (b *Builder) Or(xs ...*Term) *Term {
	var out []*Term
	for _, x := range xs {
		if x.IsConst() {
			if x.BoolVal() {
				return b.True
			}
			continue
		}
		dup := false
		for _, o := range out {
			if o == x {
				dup = true
			}
		}
		if !dup {
			out = append(out, x)
		}
	}
	switch len(out) {
	case 0:
		return b.False
	case 1:
		return out[0]
	}
	for _, x := range out {
		if x.Op == ONot {
			for _, y := range out {
				if y == x.Args[0] {
					return b.True
				}
			}
		}
	}
	return b.mk(&Term{Op: OOr, Sort: Bool, Args: out})
}

func (b *Builder) Implies(x, y *Term) *Term { return b.Or(b.Not(x), y) }

func (b *Builder) Ite(c, x, y *Term) *Term {
	if c.IsConst() {
		if c.BoolVal() {
			return x
		}
		return y
	}
	if x == y {
		return x
	}
	if x.Sort != y.Sort {
		panic(fmt.Sprintf("smt: ite sort mismatch %v %v", x.Sort, y.Sort))
	}
	if x.Sort.K == KBool {
		if x.IsConst() && y.IsConst() {
			if x.BoolVal() {
				return c
			}
			return b.Not(c)
		}
		if x.IsConst() {
			if x.BoolVal() {
				return b.Or(c, y)
			}
			return b.And(b.Not(c), y)
		}
		if y.IsConst() {
			if y.BoolVal() {
				return b.Or(b.Not(c), x)
			}
			return b.And(c, x)
		}
	}
	return b.mk(&Term{Op: OIte, Sort: x.Sort, Args: []*Term{c, x, y}})
}

// Eq is structural SMT equality (for FP use FEq for Go ==).
func (b *Builder) Eq(x, y *Term) *Term {
	if x.Sort != y.Sort {
		panic(fmt.Sprintf("smt: eq sort mismatch %v %v", x.Sort, y.Sort))
	}
	if x == y {
		return b.True
	}
	if x.IsConst() && y.IsConst() {
		return b.BoolConst(x.V == y.V)
	}
	if x.Sort.K == KBool {
		if x.IsConst() {
			if x.BoolVal() {
				return y
			}
			return b.Not(y)
		}
		if y.IsConst() {
			if y.BoolVal() {
				return x
			}
			return b.Not(x)
		}
	}
	if x.Sort.K == KBV {
		xl, xh := b.urange(x)
		yl, yh := b.urange(y)
		if xh < yl || yh < xl {
			return b.False
		}
	}
	if x.ID > y.ID {
		x, y = y, x
	}
	return b.mk(&Term{Op: OEq, Sort: Bool, Args: []*Term{x, y}})
}

func foldBV(op Op, x, y uint64, w int) (uint64, bool) {
	m := mask(w)
	switch op {
	case OAdd:
		return (x + y) & m, true
	case OSub:
		return (x - y) & m, true
	case OMul:
		return (x * y) & m, true
	case OUDiv:
		if y == 0 {
			return m, true
		}
		return x / y, true
	case OURem:
		if y == 0 {
			return x, true
		}
		return x % y, true
	case OSDiv:
		sx, sy := sext(x, w), sext(y, w)
		if sy == 0 {
			if sx < 0 {
				return 1, true
			}
			return m, true
		}
		if sy == -1 {
			return uint64(-sx) & m, true
		}
		return uint64(sx/sy) & m, true
	case OSRem:
		sx, sy := sext(x, w), sext(y, w)
		if sy == 0 {
			return x, true
		}
		if sy == -1 {
			return 0, true
		}
		return uint64(sx%sy) & m, true
	case OBAnd:
		return x & y, true
	case OBOr:
		return x | y, true
	case OBXor:
		return x ^ y, true
	case OShl:
		if y >= uint64(w) {
			return 0, true
		}
		return (x << y) & m, true
	case OLShr:
		if y >= uint64(w) {
			return 0, true
		}
		return x >> y, true
	case OAShr:
		sx := sext(x, w)
		if y >= uint64(w) {
			y = uint64(w - 1)
		}
		return uint64(sx>>y) & m, true
	}
	return 0, false
}

func (b *Builder) BVBin(op Op, x, y *Term) *Term {
	if x.Sort != y.Sort || x.Sort.K != KBV {
		panic(fmt.Sprintf("smt: bvbin sort mismatch %v %v (op %d)", x.Sort, y.Sort, op))
	}
	w := x.Sort.W
	if x.IsConst() && y.IsConst() {
		if v, ok := foldBV(op, x.V, y.V, w); ok {
			return b.BVConst(v, w)
		}
	}
	// light identities
	switch op {
	case OAdd, OBOr, OBXor:
		if x.IsConst() && x.V == 0 {
			return y
		}
		if y.IsConst() && y.V == 0 {
			return x
		}
	case OSub, OShl, OLShr, OAShr:
		if y.IsConst() && y.V == 0 {
			return x
		}
	case OBAnd:
		if x.IsConst() && x.V == 0 || y.IsConst() && y.V == 0 {
			return b.BVConst(0, w)
		}
		if x.IsConst() && x.V == mask(w) {
			return y
		}
		if y.IsConst() && y.V == mask(w) {
			return x
		}
		if x == y {
			return x
		}
	case OMul:
		if x.IsConst() && x.V == 1 {
			return y
		}
		if y.IsConst() && y.V == 1 {
			return x
		}
		if x.IsConst() && x.V == 0 || y.IsConst() && y.V == 0 {
			return b.BVConst(0, w)
		}
	}
	switch op {
	case OAdd, OMul, OBAnd, OBOr, OBXor:
		if x.ID > y.ID {
			x, y = y, x
		}
	}
	return b.mk(&Term{Op: op, Sort: x.Sort, Args: []*Term{x, y}})
}

func (b *Builder) BVCmp(op Op, x, y *Term) *Term {
	if x.Sort != y.Sort || x.Sort.K != KBV {
		panic(fmt.Sprintf("smt: bvcmp sort mismatch %v %v", x.Sort, y.Sort))
	}
	w := x.Sort.W
	if x.IsConst() && y.IsConst() {
		switch op {
		case OULT:
			return b.BoolConst(x.V < y.V)
		case OULE:
			return b.BoolConst(x.V <= y.V)
		case OSLT:
			return b.BoolConst(sext(x.V, w) < sext(y.V, w))
		case OSLE:
			return b.BoolConst(sext(x.V, w) <= sext(y.V, w))
		}
	}
	if x == y {
		return b.BoolConst(op == OULE || op == OSLE)
	}
	if op == OULT || op == OULE {
		xl, xh := b.urange(x)
		yl, yh := b.urange(y)
		switch {
		case op == OULT && xh < yl, op == OULE && xh <= yl:
			return b.True
		case op == OULT && xl >= yh, op == OULE && xl > yh:
			return b.False
		}
	}
	return b.mk(&Term{Op: op, Sort: Bool, Args: []*Term{x, y}})
}

func (b *Builder) BVNot(x *Term) *Term {
	if x.IsConst() {
		return b.BVConst(^x.V, x.Sort.W)
	}
	return b.mk(&Term{Op: OBNot, Sort: x.Sort, Args: []*Term{x}})
}
func (b *Builder) BVNeg(x *Term) *Term {
	if x.IsConst() {
		return b.BVConst(-x.V, x.Sort.W)
	}
	return b.mk(&Term{Op: ONeg, Sort: x.Sort, Args: []*Term{x}})
}

func (b *Builder) Extract(x *Term, hi, lo int) *Term {
	w := hi - lo + 1
	if lo == 0 && w == x.Sort.W {
		return x
	}
	if x.IsConst() {
		return b.BVConst(x.V>>uint(lo), w)
	}
	if x.Op == OConcat {
		// concat(a,b): b is the low part
		lw := x.Args[1].Sort.W
		if hi < lw {
			return b.Extract(x.Args[1], hi, lo)
		}
		if lo >= lw {
			return b.Extract(x.Args[0], hi-lw, lo-lw)
		}
	}
	if x.Op == OZExt || x.Op == OSExt {
		iw := x.Args[0].Sort.W
		if hi < iw {
			return b.Extract(x.Args[0], hi, lo)
		}
		if x.Op == OZExt && lo >= iw {
			return b.BVConst(0, w)
		}
	}
	return b.mk(&Term{Op: OExtract, Sort: BV(w), Args: []*Term{x}, I: hi, J: lo})
}

func (b *Builder) ZExt(x *Term, w int) *Term {
	if w == x.Sort.W {
		return x
	}
	if w < x.Sort.W {
		return b.Extract(x, w-1, 0)
	}
	if x.IsConst() {
		return b.BVConst(x.V, w)
	}
	return b.mk(&Term{Op: OZExt, Sort: BV(w), Args: []*Term{x}, I: w - x.Sort.W})
}

func (b *Builder) SExt(x *Term, w int) *Term {
	if w == x.Sort.W {
		return x
	}
	if w < x.Sort.W {
		return b.Extract(x, w-1, 0)
	}
	if x.IsConst() {
		return b.BVConst(uint64(sext(x.V, x.Sort.W)), w)
	}
	return b.mk(&Term{Op: OSExt, Sort: BV(w), Args: []*Term{x}, I: w - x.Sort.W})
}

func (b *Builder) Concat(hi, lo *Term) *Term {
	w := hi.Sort.W + lo.Sort.W
	if w > 64 {
		panic("smt: concat wider than 64 bits")
	}
	if hi.IsConst() && lo.IsConst() {
		return b.BVConst(hi.V<<uint(lo.Sort.W)|lo.V, w)
	}
	if hi.IsConst() && hi.V == 0 {
		return b.ZExt(lo, w)
	}
	return b.mk(&Term{Op: OConcat, Sort: BV(w), Args: []*Term{hi, lo}})
}

// ---- floating point -------------------------------------------------------

func fval(t *Term) float64 { return math.Float64frombits(t.V) }

func (b *Builder) FBin(op Op, x, y *Term) *Term {
	if x.IsConst() && y.IsConst() {
		a, c := fval(x), fval(y)
		switch op {
		case OFAdd:
			return b.FPConst(a + c)
		case OFSub:
			return b.FPConst(a - c)
		case OFMul:
			return b.FPConst(a * c)
		case OFDiv:
			return b.FPConst(a / c)
		}
	}
	return b.mk(&Term{Op: op, Sort: FP64, Args: []*Term{x, y}})
}

// BitsOf returns the IEEE bit pattern of a float term when the term is a
// reinterpretation of bits (constants, to_fp of a bit-vector, ite of those).
func (b *Builder) BitsOf(t *Term) (*Term, bool) {
	switch t.Op {
	case OConst:
		return b.BVConst(t.V, 64), true
	case OFFromBits:
		return t.Args[0], true
	case OIte:
		x, ok1 := b.BitsOf(t.Args[1])
		y, ok2 := b.BitsOf(t.Args[2])
		if ok1 && ok2 {
			return b.Ite(t.Args[0], x, y), true
		}
	case OFNeg:
		if x, ok := b.BitsOf(t.Args[0]); ok {
			return b.BVBin(OBXor, x, b.BVConst(1<<63, 64)), true
		}
	case OFAbs:
		if x, ok := b.BitsOf(t.Args[0]); ok {
			return b.BVBin(OBAnd, x, b.BVConst(1<<63-1, 64)), true
		}
	}
	return nil, false
}

func (b *Builder) bvNaN(a *Term) *Term {
	mag := b.BVBin(OBAnd, a, b.BVConst(1<<63-1, 64))
	return b.BVCmp(OULT, b.BVConst(0x7ff0000000000000, 64), mag)
}

func (b *Builder) bvZero(a *Term) *Term {
	return b.Eq(b.BVBin(OBAnd, a, b.BVConst(1<<63-1, 64)), b.BVConst(0, 64))
}

// bvKey maps sign-magnitude bits to a value whose signed order is the float order.
func (b *Builder) bvKey(a *Term) *Term {
	m := b.BVBin(OLShr, b.BVBin(OAShr, a, b.BVConst(63, 64)), b.BVConst(1, 64))
	return b.BVBin(OBXor, a, m)
}

// fcmpBits encodes the comparison of two bit-backed floats in pure bit-vector logic.
func (b *Builder) fcmpBits(op Op, x, y *Term) *Term {
	ok := b.And(b.Not(b.bvNaN(x)), b.Not(b.bvNaN(y)))
	bothZero := b.And(b.bvZero(x), b.bvZero(y))
	eq := b.And(ok, b.Or(b.Eq(x, y), bothZero))
	lt := b.And(ok, b.Not(bothZero), b.BVCmp(OSLT, b.bvKey(x), b.bvKey(y)))
	switch op {
	case OFEq:
		return eq
	case OFLT:
		return lt
	default:
		return b.Or(lt, eq)
	}
}

func (b *Builder) FCmp(op Op, x, y *Term) *Term {
	if x.IsConst() && y.IsConst() {
		a, c := fval(x), fval(y)
		switch op {
		case OFLT:
			return b.BoolConst(a < c)
		case OFLE:
			return b.BoolConst(a <= c)
		case OFEq:
			return b.BoolConst(a == c)
		}
	}
	if x == y {
		switch op {
		case OFLT:
			return b.False
		case OFLE, OFEq:
			return b.Not(b.FIsNaN(x))
		}
	}
	if bx, ok := b.BitsOf(x); ok {
		if by, ok := b.BitsOf(y); ok {
			return b.fcmpBits(op, bx, by)
		}
	}
	return b.mk(&Term{Op: op, Sort: Bool, Args: []*Term{x, y}})
}

func (b *Builder) FNeg(x *Term) *Term {
	if x.IsConst() {
		return b.FPConst(-fval(x))
	}
	return b.mk(&Term{Op: OFNeg, Sort: FP64, Args: []*Term{x}})
}
func (b *Builder) FAbs(x *Term) *Term {
	if x.IsConst() {
		return b.FPConst(math.Abs(fval(x)))
	}
	return b.mk(&Term{Op: OFAbs, Sort: FP64, Args: []*Term{x}})
}
func (b *Builder) FIsNaN(x *Term) *Term {
	if x.IsConst() {
		return b.BoolConst(math.IsNaN(fval(x)))
	}
	if bx, ok := b.BitsOf(x); ok {
		return b.bvNaN(bx)
	}
	return b.mk(&Term{Op: OFIsNaN, Sort: Bool, Args: []*Term{x}})
}

// FToBV converts with round-toward-zero; the result for NaN/out-of-range is
// whatever the solver picks (Go: implementation-specific).
func (b *Builder) FToBV(x *Term, w int, signed bool) *Term {
	op := OFToUBV
	if signed {
		op = OFToSBV
	}
	return b.mk(&Term{Op: op, Sort: BV(w), Args: []*Term{x}, I: w})
}

func (b *Builder) BVToF(x *Term, signed bool) *Term {
	if x.IsConst() {
		if signed {
			return b.FPConst(float64(sext(x.V, x.Sort.W)))
		}
		return b.FPConst(float64(x.V))
	}
	op := OUBVToF
	if signed {
		op = OSBVToF
	}
	return b.mk(&Term{Op: op, Sort: FP64, Args: []*Term{x}})
}

func (b *Builder) FFromBits(x *Term) *Term {
	if x.Sort.W != 64 {
		panic("smt: FFromBits needs 64 bits")
	}
	if x.IsConst() {
		return b.mk(&Term{Op: OConst, Sort: FP64, V: x.V})
	}
	return b.mk(&Term{Op: OFFromBits, Sort: FP64, Args: []*Term{x}})
}

func (b *Builder) UF(name string, res Sort, args ...*Term) *Term {
	return b.mk(&Term{Op: OUF, Sort: res, Name: name, Args: args})
}

// ---- printing ---------------------------------------------------------------

func bvLit(v uint64, w int) string {
	if w%4 == 0 {
		return fmt.Sprintf("#x%0*x", w/4, v)
	}
	return fmt.Sprintf("#b%0*b", w, v)
}

func fpLit(bitsv uint64) string {
	f := math.Float64frombits(bitsv)
	if math.IsNaN(f) {
		return "(_ NaN 11 53)"
	}
	s := bitsv >> 63
	e := (bitsv >> 52) & 0x7ff
	m := bitsv & ((1 << 52) - 1)
	return fmt.Sprintf("(fp #b%b #b%011b #x%013x)", s, e, m)
}

func (t *Term) ref() string {
	switch t.Op {
	case OConst:
		switch t.Sort.K {
		case KBool:
			if t.V != 0 {
				return "true"
			}
			return "false"
		case KBV:
			return bvLit(t.V, t.Sort.W)
		default:
			return fpLit(t.V)
		}
	case OVar:
		return "|" + symName(t.Name) + "|"
	}
	return fmt.Sprintf("t%d", t.ID)
}

func (t *Term) body() string {
	var sb strings.Builder
	args := func() {
		for _, a := range t.Args {
			sb.WriteByte(' ')
			sb.WriteString(a.ref())
		}
		sb.WriteByte(')')
	}
	switch t.Op {
	case OExtract:
		fmt.Fprintf(&sb, "((_ extract %d %d)", t.I, t.J)
		args()
	case OZExt:
		fmt.Fprintf(&sb, "((_ zero_extend %d)", t.I)
		args()
	case OSExt:
		fmt.Fprintf(&sb, "((_ sign_extend %d)", t.I)
		args()
	case OFAdd, OFSub, OFMul, OFDiv:
		n := map[Op]string{OFAdd: "fp.add", OFSub: "fp.sub", OFMul: "fp.mul", OFDiv: "fp.div"}[t.Op]
		fmt.Fprintf(&sb, "(%s RNE", n)
		args()
	case OFToSBV:
		fmt.Fprintf(&sb, "((_ fp.to_sbv %d) RTZ", t.I)
		args()
	case OFToUBV:
		fmt.Fprintf(&sb, "((_ fp.to_ubv %d) RTZ", t.I)
		args()
	case OSBVToF:
		sb.WriteString("((_ to_fp 11 53) RNE")
		args()
	case OUBVToF:
		sb.WriteString("((_ to_fp_unsigned 11 53) RNE")
		args()
	case OFFromBits:
		sb.WriteString("((_ to_fp 11 53)")
		args()
	case OUF:
		if len(t.Args) == 0 {
			return "|" + symName(t.Name) + "|"
		}
		sb.WriteString("(|" + symName(t.Name) + "|")
		args()
	default:
		n, ok := opName[t.Op]
		if !ok {
			panic(fmt.Sprintf("smt: no printer for op %d", t.Op))
		}
		sb.WriteString("(" + n)
		args()
	}
	return sb.String()
}

// Emitter tracks which definitions a solver scope already holds.
type Emitter struct {
	epoch   int
	ufs     map[string]bool
	Out     func(string)
	scratch []*Term
}

var globalEpoch int64

func NewEmitter(out func(string)) *Emitter {
	return &Emitter{epoch: int(atomic.AddInt64(&globalEpoch, 1)), ufs: map[string]bool{}, Out: out}
}

// Reset forgets all emitted definitions (call after the enclosing scope was popped).
func (e *Emitter) Reset() {
	e.epoch = int(atomic.AddInt64(&globalEpoch, 1))
	e.ufs = map[string]bool{}
}

// Define makes sure t and everything below it is declared; returns its reference.
func (e *Emitter) Define(t *Term) string {
	if t.Op == OConst {
		return t.ref()
	}
	if t.epoch == e.epoch {
		return t.ref()
	}
	// iterative post-order to survive deep DAGs
	type fr struct {
		t *Term
		i int
	}
	st := []fr{{t, 0}}
	for len(st) > 0 {
		f := &st[len(st)-1]
		if f.t.epoch == e.epoch || f.t.Op == OConst {
			st = st[:len(st)-1]
			continue
		}
		if f.i < len(f.t.Args) {
			a := f.t.Args[f.i]
			f.i++
			if a.epoch != e.epoch && a.Op != OConst {
				st = append(st, fr{a, 0})
			}
			continue
		}
		x := f.t
		st = st[:len(st)-1]
		x.epoch = e.epoch
		switch x.Op {
		case OVar:
			e.Out(fmt.Sprintf("(declare-const |%s| %s)", x.Name, x.Sort))
		case OUF:
			key := x.Name
			if !e.ufs[key] {
				e.ufs[key] = true
				var sb strings.Builder
				fmt.Fprintf(&sb, "(declare-fun |%s| (", symName(x.Name))
				for _, a := range x.Args {
					sb.WriteString(a.Sort.String() + " ")
				}
				fmt.Fprintf(&sb, ") %s)", x.Sort)
				e.Out(sb.String())
			}
			e.Out(fmt.Sprintf("(define-fun t%d () %s %s)", x.ID, x.Sort, x.body()))
		default:
			e.Out(fmt.Sprintf("(define-fun t%d () %s %s)", x.ID, x.Sort, x.body()))
		}
	}
	return t.ref()
}

// Eval evaluates t under an assignment of variables (by name) and UF tables.
// Used to double-check models and to run concrete twins. Returns ok=false if a
// needed value is missing.
func Eval(t *Term, vars map[string]uint64) (uint64, bool) {
	memo := map[int]uint64{}
	var ev func(t *Term) (uint64, bool)
	ev = func(t *Term) (uint64, bool) {
		if t.Op == OConst {
			return t.V, true
		}
		if v, ok := memo[t.ID]; ok {
			return v, true
		}
		var a [3]uint64
		if t.Op != OVar && t.Op != OUF {
			if len(t.Args) <= 3 {
				for i, x := range t.Args {
					v, ok := ev(x)
					if !ok {
						return 0, false
					}
					a[i] = v
				}
			}
		}
		var r uint64
		switch t.Op {
		case OVar:
			v, ok := vars[t.Name]
			if !ok {
				return 0, false
			}
			r = v
		case ONot:
			r = a[0] ^ 1
		case OAnd:
			r = 1
			for _, x := range t.Args {
				v, ok := ev(x)
				if !ok {
					return 0, false
				}
				r &= v
			}
		case OOr:
			r = 0
			for _, x := range t.Args {
				v, ok := ev(x)
				if !ok {
					return 0, false
				}
				r |= v
			}
		case OIte:
			if a[0] != 0 {
				r = a[1]
			} else {
				r = a[2]
			}
		case OEq:
			if t.Args[0].Sort.K == KFP {
				fa, fb := math.Float64frombits(a[0]), math.Float64frombits(a[1])
				if math.IsNaN(fa) && math.IsNaN(fb) || a[0] == a[1] {
					r = 1
				}
			} else if a[0] == a[1] {
				r = 1
			}
		case OAdd, OSub, OMul, OUDiv, OSDiv, OURem, OSRem, OBAnd, OBOr, OBXor, OShl, OLShr, OAShr:
			r, _ = foldBV(t.Op, a[0], a[1], t.Sort.W)
		case OBNot:
			r = ^a[0] & mask(t.Sort.W)
		case ONeg:
			r = -a[0] & mask(t.Sort.W)
		case OULT:
			r = b2u(a[0] < a[1])
		case OULE:
			r = b2u(a[0] <= a[1])
		case OSLT:
			w := t.Args[0].Sort.W
			r = b2u(sext(a[0], w) < sext(a[1], w))
		case OSLE:
			w := t.Args[0].Sort.W
			r = b2u(sext(a[0], w) <= sext(a[1], w))
		case OExtract:
			r = (a[0] >> uint(t.J)) & mask(t.I-t.J+1)
		case OZExt:
			r = a[0]
		case OSExt:
			r = uint64(sext(a[0], t.Args[0].Sort.W)) & mask(t.Sort.W)
		case OConcat:
			r = a[0]<<uint(t.Args[1].Sort.W) | a[1]
		case OFAdd:
			r = math.Float64bits(math.Float64frombits(a[0]) + math.Float64frombits(a[1]))
		case OFSub:
			r = math.Float64bits(math.Float64frombits(a[0]) - math.Float64frombits(a[1]))
		case OFMul:
			r = math.Float64bits(math.Float64frombits(a[0]) * math.Float64frombits(a[1]))
		case OFDiv:
			r = math.Float64bits(math.Float64frombits(a[0]) / math.Float64frombits(a[1]))
		case OFNeg:
			r = a[0] ^ (1 << 63)
		case OFAbs:
			r = a[0] &^ (1 << 63)
		case OFLT:
			r = b2u(math.Float64frombits(a[0]) < math.Float64frombits(a[1]))
		case OFLE:
			r = b2u(math.Float64frombits(a[0]) <= math.Float64frombits(a[1]))
		case OFEq:
			r = b2u(math.Float64frombits(a[0]) == math.Float64frombits(a[1]))
		case OFIsNaN:
			r = b2u(math.IsNaN(math.Float64frombits(a[0])))
		case OFFromBits:
			r = a[0]
		case OSBVToF:
			r = math.Float64bits(float64(sext(a[0], t.Args[0].Sort.W)))
		case OUBVToF:
			r = math.Float64bits(float64(a[0]))
		case OFToSBV:
			f := math.Float64frombits(a[0])
			r = uint64(int64(f)) & mask(t.Sort.W)
		case OFToUBV:
			f := math.Float64frombits(a[0])
			r = uint64(f) & mask(t.Sort.W)
		default:
			return 0, false
		}
		memo[t.ID] = r
		return r, true
	}
	return ev(t)
}

func b2u(b bool) uint64 {
	if b {
		return 1
	}
	return 0
}

var _ = bits.Len

// urange returns a sound unsigned value range of a bit-vector term.
func (b *Builder) urange(t *Term) (uint64, uint64) {
	if t.rng {
		return t.lo, t.hi
	}
	w := t.Sort.W
	lo, hi := uint64(0), mask(w)
	switch t.Op {
	case OConst:
		lo, hi = t.V, t.V
	case OZExt:
		lo, hi = b.urange(t.Args[0])
	case OExtract:
		if t.J == 0 {
			xl, xh := b.urange(t.Args[0])
			if xh <= mask(w) {
				lo, hi = xl, xh
			}
		}
	case OBAnd:
		_, xh := b.urange(t.Args[0])
		_, yh := b.urange(t.Args[1])
		hi = xh
		if yh < hi {
			hi = yh
		}
	case OAdd:
		xl, xh := b.urange(t.Args[0])
		yl, yh := b.urange(t.Args[1])
		if xh+yh >= xh && xh+yh <= mask(w) {
			lo, hi = xl+yl, xh+yh
		}
	case OIte:
		xl, xh := b.urange(t.Args[1])
		yl, yh := b.urange(t.Args[2])
		lo, hi = xl, xh
		if yl < lo {
			lo = yl
		}
		if yh > hi {
			hi = yh
		}
	case OLShr:
		if t.Args[1].IsConst() && t.Args[1].V < 64 {
			xl, xh := b.urange(t.Args[0])
			lo, hi = xl>>t.Args[1].V, xh>>t.Args[1].V
		}
	case OURem:
		if t.Args[1].IsConst() && t.Args[1].V > 0 {
			hi = t.Args[1].V - 1
		}
	}
	t.lo, t.hi, t.rng = lo, hi, true
	return lo, hi
}


// symName makes a name usable inside |...|: SMT-LIB quoted symbols cannot contain '|' or '\\'
// (regex patterns in the names of the regexp predicates do). The replacement is injective.
func symName(n string) string {
	if !strings.ContainsAny(n, "|\\%") {
		return n
	}
	var sb strings.Builder
	for k := 0; k < len(n); k++ {
		switch c := n[k]; c {
		case '|', '\\', '%':
			fmt.Fprintf(&sb, "%%%02x", c)
		default:
			sb.WriteByte(c)
		}
	}
	return sb.String()
}
