package smt

import (
	"math"
	"testing"
)

// The pure bit-vector encoding of float comparisons must agree with Go's.
func TestFcmpBits(t *testing.T) {
	vals := []float64{0, math.Copysign(0, -1), 1, -1, 2.5, -2.5, math.Inf(1), math.Inf(-1), math.NaN(), math.Float64frombits(0x7ff0000000000001), math.Float64frombits(0xfff8000000000000), 5e-324, -5e-324, math.MaxFloat64, -math.MaxFloat64}
	b := NewBuilder()
	x := b.NamedVar("x", BV(64))
	y := b.NamedVar("y", BV(64))
	fx, fy := b.FFromBits(x), b.FFromBits(y)
	lt, le, eq, nan := b.FCmp(OFLT, fx, fy), b.FCmp(OFLE, fx, fy), b.FCmp(OFEq, fx, fy), b.FIsNaN(fx)
	for _, u := range vals {
		for _, v := range vals {
			m := map[string]uint64{"x": math.Float64bits(u), "y": math.Float64bits(v)}
			chk := func(tm *Term, want bool, what string) {
				got, ok := Eval(tm, m)
				if !ok || (got != 0) != want {
					t.Errorf("%s(%v,%v): got %v ok=%v want %v", what, u, v, got, ok, want)
				}
			}
			chk(lt, u < v, "lt")
			chk(le, u <= v, "le")
			chk(eq, u == v, "eq")
			chk(nan, math.IsNaN(u), "nan")
		}
	}
}
