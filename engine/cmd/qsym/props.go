package main

// Property registry. Each property lists its harness dirs and the job table
// (harness instances = program skeletons with concrete sizes).

import "strconv"

func itoa(n int) string { return strconv.Itoa(n) }

func init() {
	register(&Property{
		ID:   "C08",
		Dirs: []string{"root", "internal/strings"},
		Jobs: func(tier string) []Job {
			L := 2
			typeSets := []string{"int", "string", "int,float", "string,int", "enum,bool", "float,string"}
			if tier == "thorough" {
				L = 3
				typeSets = append(typeSets, "int,float,bool", "string,enum,int", "bool,int,string")
			}
			var jobs []Job
			for _, ts := range typeSets {
				for _, cfg := range []string{"none", "order_rev", "order_short", "order_unknown", "enum_unknown", "badtype"} {
					jobs = append(jobs, Job{Harness: "VX_C08_new", Params: P("types", ts, "L", itoa(L), "cfg", cfg)})
				}
			}
			jobs = append(jobs, Job{Harness: "VX_C08_const"})
			for n := 0; n <= 3; n++ {
				jobs = append(jobs, Job{Harness: "VX_C08_name", Params: P("len", itoa(n))})
			}
			n, pp := 2, 3
			if tier == "thorough" {
				n, pp = 3, 4
			}
			for _, op := range []string{"select_perm", "select_unknown", "drop", "drop_none", "slice", "copy_new", "copy_replace", "copy_self", "copy_unknown", "copy_badname"} {
				jobs = append(jobs, Job{Harness: "VX_C08_project", Params: P("op", op, "n", itoa(n), "P", itoa(pp))})
			}
			jobs = append(jobs, Job{Harness: "VX_C08_pointer"})
			return jobs
		},
		Bounds: func(tier string) string {
			if tier == "thorough" {
				return "New: 1-3 columns, each length symbolic in 0..3, cells symbolic (strings <=1 byte, nullable), 6 config variants; names of 0-3 symbolic bytes; projections on n=3 of P=4 rows with all five types, Slice bounds over all of int; Pointer over all offsets<2^35, lengths<2^28"
			}
			return "New: 1-2 columns, each length symbolic in 0..2, cells symbolic (strings <=1 byte, nullable), 6 config variants; names of 0-3 symbolic bytes; projections on n=2 of P=3 rows with all five types, Slice bounds over all of int; Pointer over all offsets<2^35, lengths<2^28"
		},
		Assume:    []string{"names of length 2 that consist of two quote characters are not asserted either way (documentation is silent)", "Drop of an unknown name is not asserted either way"},
		Outside:   []string{"more than 3 columns or 3 rows", "strings >= 2^28 bytes / blobs >= 2^35 bytes (documented limits)", "Append"},
		MinReach:  []string{"end-valid", "end-invalid", "slice-valid", "slice-invalid", "end"},
		TVVectors: 3,
	})
}

func init() {
	register(&Property{
		ID:   "C03",
		Dirs: []string{"root", "internal/sort"},
		Jobs: func(tier string) []Job {
			var jobs []Job
			allFlags := []string{"--", "r-", "-n", "rn"}
			n, pp := 3, 4
			if tier == "thorough" {
				n, pp = 4, 5
			}
			for _, t := range []string{"int", "float", "bool", "string", "enum"} {
				for _, fl := range allFlags {
					nn, ppp := n, pp
					if t == "string" || t == "enum" {
						nn, ppp = 3, 3
					}
					jobs = append(jobs, Job{Harness: "VX_C03_sort", Params: P("types", t, "flags", fl, "n", itoa(nn), "P", itoa(ppp))})
				}
			}
			for _, ts := range []string{"int,float", "float,int", "bool,float", "float,string", "enum,int"} {
				for _, fl := range []string{"----", "r--n", "-nr-", "rnrn"} {
					nn, ppp := 3, 3
					jobs = append(jobs, Job{Harness: "VX_C03_sort", Params: P("types", ts, "flags", fl, "n", itoa(nn), "P", itoa(ppp))})
				}
			}
			k := func(kernel, mode string, n int) {
				jobs = append(jobs, Job{Harness: "VX_C03_kernel", Params: P("kernel", kernel, "mode", mode, "n", itoa(n)), MaxPaths: 400000})
			}
			k("median3", "any", 3)
			for n := 2; n <= 5; n++ {
				k("insertion", "any", n)
				k("heap", "any", n)
				k("heap_fallback", "any", n)
				k("shell", "any", n)
			}
			k("shell", "binary", 8)
			if tier == "thorough" {
				k("shell", "binary", 12)
				k("pivot", "binary", 13)
				k("sort", "binary", 13)
				k("insertion", "any", 6)
				k("heap", "any", 6)
				k("shell", "any", 6)
				k("shell", "distinct", 7)
				k("heap", "distinct", 7)
				k("pivot", "ternary", 13)
				k("pivot", "binary", 15)
				k("sort", "binary", 14)
				k("sort", "binary", 16)
				k("sort", "few", 20)
				k("sort", "few", 41)
				k("sort", "few", 44)
				k("heap_fallback", "binary", 13)
			}
			return jobs
		},
		Bounds: func(tier string) string {
			if tier == "thorough" {
				return "Sort end to end: 1-2 keys of all five types, all Reverse/NullLast combinations, n<=4 rows of P<=5 (general symbolic keys, nulls, index); sorter kernels under an abstract rank order: insertion/heap/shell n<=6 general, n=7 distinct ranks; doPivot n=13 ternary, n=15 binary; whole Sort n=13-16 binary ranks, n=20/41/44 with all ranks tied except 3 symbolic positions (ninther regime)"
			}
			return "Sort end to end: 1-2 keys of all five types, all Reverse/NullLast combinations, n=3 rows of P<=4 (general symbolic keys, nulls, index); sorter kernels under an abstract rank order: insertion/heap/shell n<=5 general ranks, shell pass n=8 binary ranks"
		},
		Assume:   []string{"any strict weak order is a rank function (sorter kernels use symbolic integer ranks)", "restricted-key slices (binary/ternary/few) are decided completely inside the slice and are slices of the input space, not the whole of it"},
		Outside:  []string{"general keys for n >= 7 (8) end to end", "doPivot with general keys for n >= 13", "ninther regime beyond 3 non-tied keys"},
		MinReach: []string{"end"},
		TVVectors: 3,
	})
}
