package main

// Property registry. Each property lists its harness dirs and the job table
// (harness instances = program skeletons with concrete sizes).

import (
	"strconv"
	"strings"
)

func itoa(n int) string { return strconv.Itoa(n) }

func init() {
	register(&Property{
		ID:   "C08",
		Dirs: []string{"root", "internal/strings"},
		Jobs: func(tier string) []Job {
			L := 2
			typeSets := []string{"int", "string", "int,float", "string,int", "enum,bool", "float,string"}
			if tier == "thorough" {
				L = 3
				typeSets = append(typeSets, "int,float,bool", "string,enum,int", "bool,int,string")
			}
			var jobs []Job
			for _, ts := range typeSets {
				for _, cfg := range []string{"none", "order_rev", "order_short", "order_unknown", "enum_unknown", "badtype"} {
					jobs = append(jobs, Job{Harness: "VX_C08_new", Params: P("types", ts, "L", itoa(L), "cfg", cfg)})
				}
			}
			for _, ts := range []string{"int", "string,int", "enum,bool", "float,string"} {
				jobs = append(jobs, Job{Harness: "VX_C08_new", Params: P("types", ts, "L", itoa(L), "cfg", "enum_nonstring")})
			}
			for _, sd := range []string{"shared", "plain"} {
				for _, ts := range []string{"string", "enum"} {
					jobs = append(jobs, Job{Harness: "VX_C08_new", Params: P("types", ts, "L", "3", "cfg", "none", "sdata", sd)})
				}
				jobs = append(jobs, Job{Harness: "VX_C08_new", Params: P("types", "string,int", "L", itoa(L), "cfg", "order_rev", "sdata", sd)})
			}
			jobs = append(jobs, Job{Harness: "VX_C08_const"}, Job{Harness: "VX_C08_enum_empty"})
			for n := 0; n <= 3; n++ {
				jobs = append(jobs, Job{Harness: "VX_C08_name", Params: P("len", itoa(n))})
			}
			n, pp := 2, 3
			if tier == "thorough" {
				n, pp = 3, 4
			}
			for _, op := range []string{"select_perm", "select_unknown", "drop", "drop_dup", "copy_siblings", "drop_none", "slice", "copy_new", "copy_replace", "copy_self", "copy_unknown", "copy_badname"} {
				jobs = append(jobs, Job{Harness: "VX_C08_project", Params: P("op", op, "n", itoa(n), "P", itoa(pp))})
			}
			jobs = append(jobs, Job{Harness: "VX_C08_pointer"})
			return jobs
		},
		Bounds: func(tier string) string {
			if tier == "thorough" {
				return "New: 1-3 columns, each length symbolic in 0..3, cells symbolic (strings <=1 byte, nullable), 6 config variants; names of 0-3 symbolic bytes; projections on n=3 of P=4 rows with all five types, Slice bounds over all of int; Pointer over all offsets<2^35, lengths<2^28"
			}
			return "New: 1-2 columns, each length symbolic in 0..2, cells symbolic (strings <=1 byte, nullable), 6 config variants; names of 0-3 symbolic bytes; projections on n=2 of P=3 rows with all five types, Slice bounds over all of int; Pointer over all offsets<2^35, lengths<2^28"
		},
		Assume:    []string{"names of length 2 that consist of two quote characters are not asserted either way (documentation is silent)", "Drop of an unknown name is not asserted either way"},
		Outside:   []string{"more than 3 columns or 3 rows", "strings >= 2^28 bytes / blobs >= 2^35 bytes (documented limits)", "Append"},
		MinReach:  []string{"end-valid", "end-invalid", "slice-valid", "slice-invalid", "end"},
		TVVectors: 3,
	})
}

func init() {
	register(&Property{
		ID:   "C03",
		Dirs: []string{"root", "internal/sort"},
		Jobs: func(tier string) []Job {
			var jobs []Job
			// enum keys at the full cardinality of the value set (255 declared values + null): null placement
			jobs = append(jobs, Job{Harness: "VX_C17_order", Params: P("K", "255", "const", "254", "cmp", "<")}, Job{Harness: "VX_C17_order", Params: P("K", "254", "const", "3", "cmp", ">=")})
			allFlags := []string{"--", "r-", "-n", "rn"}
			n, pp := 3, 4
			if tier == "thorough" {
				n, pp = 4, 5
			}
			for _, t := range []string{"int", "float", "bool", "string", "enum"} {
				for _, fl := range allFlags {
					nn, ppp := n, pp
					if t == "string" || t == "enum" {
						nn, ppp = 3, 3
					}
					jobs = append(jobs, Job{Harness: "VX_C03_sort", Params: P("types", t, "flags", fl, "n", itoa(nn), "P", itoa(ppp))})
				}
			}
			for _, ts := range []string{"int,float", "float,int", "bool,float", "float,string", "enum,int"} {
				for _, fl := range []string{"----", "r--n", "-nr-", "rnrn"} {
					nn, ppp := 3, 3
					jobs = append(jobs, Job{Harness: "VX_C03_sort", Params: P("types", ts, "flags", fl, "n", itoa(nn), "P", itoa(ppp))})
				}
			}
			// string keys that may be empty
			for _, fl := range []string{"--", "r-", "-n", "rn"} {
				jobs = append(jobs, Job{Harness: "VX_C03_sort", Params: P("types", "string", "flags", fl, "n", "3", "P", "3", "empty", "1")})
			}
			jobs = append(jobs, Job{Harness: "VX_C03_sort", Params: P("types", "string,int", "flags", "r---", "n", "3", "P", "3", "empty", "1")})
			// a key column given twice: the first occurrence decides
			for _, ts := range []string{"int", "float", "int,float", "string"} {
				fl := "--"
				if strings.Contains(ts, ",") {
					fl = "-n--"
				}
				jobs = append(jobs, Job{Harness: "VX_C03_sort", Params: P("types", ts, "flags", fl, "n", "3", "P", "3", "repeat", "1")})
			}
			// Sort on frames with a history (sorted before, key replaced / filtered / re-sorted)
			for _, via := range []string{"apply", "copy", "eval", "filter", "reverse", "same"} {
				jobs = append(jobs, Job{Harness: "VX_C03_resort", Params: P("via", via, "first", "k", "n", "3", "P", "4")})
				if via == "copy" || via == "same" || tier == "thorough" {
					jobs = append(jobs, Job{Harness: "VX_C03_resort", Params: P("via", via, "first", "k,y", "n", "3", "P", "3")})
				}
			}
			k := func(kernel, mode string, n int) {
				jobs = append(jobs, Job{Harness: "VX_C03_kernel", Params: P("kernel", kernel, "mode", mode, "n", itoa(n)), MaxPaths: 400000})
			}
			k("median3", "any", 3)
			for n := 2; n <= 5; n++ {
				k("insertion", "any", n)
				k("heap", "any", n)
				k("heap_fallback", "any", n)
				k("shell", "any", n)
			}
			k("shell", "binary", 8)
			kr := func(kernel, mode string, n, a, b int) {
				jobs = append(jobs, Job{Harness: "VX_C03_kernel", Params: P("kernel", kernel, "mode", mode, "n", itoa(n), "a", itoa(a), "b", itoa(b)), MaxPaths: 400000})
			}
			kr("heap_range", "any", 5, 1, 5)
			kr("heap_range", "any", 5, 2, 5)
			kr("heap_range", "any", 6, 1, 5)
			kr("insertion_range", "any", 5, 1, 5)
			kr("insertion_range", "any", 6, 2, 5)
			// quicksort partition of 14 rows (the smallest even range that reaches doPivot) on inputs made
			// of four constant runs with symbolic lengths over three ranks
			kb := func(kernel, vs string, n int) {
				jobs = append(jobs, Job{Harness: "VX_C03_kernel", Params: P("kernel", kernel, "mode", "blocks", "vs", vs, "n", itoa(n)), MaxPaths: 400000})
			}
			perms := []string{"012", "021", "102", "120", "201", "210"}
			for _, p := range perms {
				kb("pivot", p+p[2:], 14)
				kb("pivot", p+p[:1], 14)
			}
			if tier == "thorough" {
				for v := 0; v < 81; v++ {
					vs := string([]byte{byte('0' + v%3), byte('0' + v/3%3), byte('0' + v/9%3), byte('0' + v/27%3)})
					kb("pivot", vs, 16)
					kb("sort", vs, 14)
					if v%3 != v/3%3 && v/3%3 != v/9%3 {
						kb("pivot", vs, 13)
						kb("pivot", vs, 20)
						kb("sort", vs, 17)
					}
				}
			}
			if tier == "thorough" {
				kr("quick0_range", "binary", 15, 1, 14)
				kr("heap_range", "any", 7, 2, 7)
				kr("heap_range", "distinct", 8, 3, 8)
				kr("pivot_range", "binary", 16, 2, 15)

				k("shell", "binary", 12)
				k("pivot", "binary", 13)
				k("sort", "binary", 13)
				k("insertion", "any", 6)
				k("heap", "any", 6)
				k("shell", "any", 6)
				k("shell", "distinct", 7)
				k("heap", "distinct", 7)
				k("pivot", "ternary", 9)
				k("pivot", "ternary", 10)
				k("pivot", "binary", 15)
				k("sort", "binary", 14)
				k("sort", "binary", 16)
				k("sort", "few", 20)
				k("sort", "few", 41)
				k("sort", "few", 44)
				k("heap_fallback", "binary", 13)
			}
			return jobs
		},
		Bounds: func(tier string) string {
			if tier == "thorough" {
				return "Sort end to end: 1-2 keys of all five types, all Reverse/NullLast combinations, n<=4 rows of P<=5 (general symbolic keys, nulls, index); sorter kernels under an abstract rank order: insertion/heap/shell n<=6 general, n=7 distinct ranks; doPivot n<=10 ternary, n=13,15 binary (range 2..15 of 16 binary), and doPivot n=13,14,16,20 / whole sort n=14,17 on inputs made of four constant runs with symbolic lengths over three ranks (all 81 run-value patterns); whole Sort n=13-16 binary ranks, n=20/41/44 with all ranks tied except 3 symbolic positions (ninther regime); Sort on frames with a history (sorted before, then key replaced by Apply/Copy/Eval, filtered, re-sorted) n=3"
			}
			return "Sort end to end: 1-2 keys of all five types, all Reverse/NullLast combinations, n=3 rows of P<=4 (general symbolic keys, nulls, index); sorter kernels under an abstract rank order: insertion/heap/shell n<=5 general ranks, shell pass n=8 binary ranks; doPivot on 14 rows made of four constant runs with symbolic lengths over three ranks (12 run-value patterns); Sort on frames with a history (sorted before, then key replaced by Apply/Copy/Eval, filtered, re-sorted) n=3"
		},
		Assume:   []string{"any strict weak order is a rank function (sorter kernels use symbolic integer ranks)", "restricted-key slices (binary/ternary/few/blocks) are decided completely inside the slice and are slices of the input space, not the whole of it"},
		Outside:  []string{"general keys for n >= 7 (8) end to end", "doPivot with more than two distinct ranks for n >= 11 (3^n comparison outcomes: n=13 did not finish in 18 min; seeded change C03-4 lives there)", "ninther regime beyond 3 non-tied keys"},
		MinReach: []string{"end"},
		TVVectors: 3,
	})
}

func c04jobs(harness string, tier string) []Job {
	var jobs []Job
	n := 3
	ixm := "rev"
	typeSets := []string{"int", "float", "bool", "string", "enum", "bool,int"}
	if tier == "thorough" {
		n = 4
		ixm = "any"
		typeSets = append(typeSets, "string,int", "int,float", "enum,bool")
	}
	for _, ts := range typeSets {
		for _, nl := range []string{"true", "false"} {
			nn := n
			if tier == "thorough" && (ts != "int") {
				nn = 3
			}
			slots := "017"
			if tier == "thorough" && ts == "int" {
				slots = "all"
				nn = 3
			}
			ixj := ixm
			if strings.Contains(ts, ",") || ts == "float" {
				ixj = "rev" // two key columns / float keys: one fixed arrangement (every arrangement took > 25 min)
			}
			p := P("types", ts, "n", itoa(nn), "null", nl, "ix", ixj, "agg", "none", "cols", "given", "slots", slots)
			jobs = append(jobs, Job{Harness: harness, Params: p, MaxPaths: 200000})
			if harness == "VX_C05_distinct" && (ts == "int" || ts == "string,int" || ts == "float" || ts == "string") {
				q := P("types", ts, "n", itoa(nn), "null", nl, "ix", ixm, "agg", "none", "cols", "all", "slots", "017")
				jobs = append(jobs, Job{Harness: harness, Params: q, MaxPaths: 200000})
			}
		}
	}
	if harness == "VX_C05_distinct" {
		// an earlier Distinct/GroupBy with the opposite Null setting on the same columns
		for _, ts := range []string{"string", "enum", "int"} {
			for _, nl := range []string{"true", "false"} {
				jobs = append(jobs, Job{Harness: harness, Params: P("types", ts, "n", "3", "null", nl, "ix", "rev", "agg", "none", "cols", "given", "slots", "0", "warm", "1"), MaxPaths: 200000})
			}
		}
	}
	// small key domains (enum, bool): more rows than keys, several nulls
	for _, ts := range []string{"enum"} {
		for _, nl := range []string{"true", "false"} {
			jobs = append(jobs, Job{Harness: harness, Params: P("types", ts, "n", "5", "null", nl, "ix", "rev", "agg", "none", "cols", "given", "slots", "0", "kconc", "1"), MaxPaths: 200000})
			jobs = append(jobs, Job{Harness: harness, Params: P("types", ts, "n", "4", "null", nl, "ix", "any", "agg", "none", "cols", "given", "slots", "0", "kconc", "1"), MaxPaths: 200000})
		}
	}
	// the hash table across a growth step (5 distinct keys fill the 8-slot table beyond load factor 0.5)
	jobs = append(jobs, Job{Harness: "VX_C04_table", Params: P("n", "7", "conc", "5", "hash", "ident"), MaxPaths: 300000})
	jobs = append(jobs, Job{Harness: "VX_C04_table", Params: P("n", "7", "conc", "5", "hash", "ident", "stride", "8"), MaxPaths: 300000})
	jobs = append(jobs, Job{Harness: "VX_C04_table", Params: P("n", "7", "conc", "5", "hash", "ident", "stride", "16"), MaxPaths: 300000})
	jobs = append(jobs, c04bigJobs(tier, false)...)
	if tier == "thorough" {
		jobs = append(jobs, Job{Harness: "VX_C04_table", Params: P("n", "6", "conc", "5", "hash", "uf"), MaxPaths: 1000000})
		jobs = append(jobs, Job{Harness: "VX_C04_table", Params: P("n", "8", "conc", "5", "hash", "ident"), MaxPaths: 1000000})
		jobs = append(jobs, Job{Harness: "VX_C04_table", Params: P("n", "11", "conc", "9", "hash", "ident"), MaxPaths: 1000000})
	}
	if harness == "VX_C04_groupby" {
		an := "3"
		if tier == "thorough" {
			an = "4"
		}
		jobs = append(jobs, Job{Harness: harness, Params: P("types", "bool", "n", an, "null", "false", "ix", "any", "agg", "all", "cols", "given", "slots", "0", "kconc", "1"), MaxPaths: 200000})
		jobs = append(jobs, Job{Harness: harness, Params: P("types", "", "n", "3", "null", "false", "ix", "any", "agg", "all", "cols", "given", "slots", "017")})
	}
	return jobs
}

// c04bigJobs: groupings at the sizes where size-dependent strategies start (64-slot initial table from 128 rows)
// c18seqJobs: one regex pattern used by like and ilike in turn (matcher level and Filter level)
func c18seqJobs() []Job {
	var jobs []Job
	for _, pat := range []string{"a.c", "A[bx]"} {
		for _, first := range []string{"true", "false"} {
			jobs = append(jobs, Job{Harness: "VX_C18_regex_seq", Params: P("pattern", pat, "first", first)})
		}
	}
	for _, pat := range []string{"a.c", "%b.", "a[bX]c%", "%B.%"} {
		for _, first := range []string{"true", "false"} {
			jobs = append(jobs, Job{Harness: "VX_C18_filter_seq", Params: P("pattern", pat, "first", first)})
		}
	}
	return jobs
}

// c14rowCountJobs: ToJSON of frames whose row count is around 32, 64, 128, 256 (thorough: 512, 1024)
func c14rowCountJobs(tier string) []Job {
	var jobs []Job
	ranges := [][2]string{{"31", "33"}, {"63", "65"}, {"127", "129"}, {"255", "257"}}
	if tier == "thorough" {
		ranges = append(ranges, [2]string{"511", "513"}, [2]string{"1023", "1025"}, [2]string{"99", "101"}, [2]string{"191", "193"})
	}
	for _, r := range ranges {
		jobs = append(jobs, Job{Harness: "VX_C14_tojson", Params: P("shape", "big", "namelen", "0", "n", "1", "strlen", "1", "rowslo", r[0], "rowshi", r[1]), MaxSteps: 400000000})
	}
	return jobs
}

func c04bigJobs(tier string, strict bool) []Job {
	var jobs []Job
	sizes := [][3]string{{"130", "20", "13"}}
	if tier == "thorough" {
		sizes = append(sizes, [3]string{"127", "20", "13"}, [3]string{"260", "40", "9"}, [3]string{"130", "2", "70"})
	}
	for _, sz := range sizes {
		p := P("n", sz[0], "m1", sz[1], "m2", sz[2])
		if strict {
			p["strict"] = "1"
		}
		jobs = append(jobs, Job{Harness: "VX_C04_table_big", Params: p})
	}
	return jobs
}

func init() {
	assume := []string{
		"internal/hash.HashBytes is an uninterpreted function H(bytes,seed) (functional consistency only): the solver picks every collision and probe chain; except where slots=all the low 3 bits of hash values are restricted to {0,1,7} (same slot, probe chain, wrap-around of the 8-slot table), upper bits free",
		"math/rand.Uint64 (hash of non-equal nulls) is an unconstrained value",
		"float sums are compared as identical floating-point terms (same operations in frame order)",
		"user aggregation functions are uninterpreted",
	}
	register(&Property{
		ID: "C04", Dirs: []string{"root", "internal/grouper"},
		Jobs:   func(tier string) []Job { return c04jobs("VX_C04_groupby", tier) },
		Bounds: func(tier string) string {
			if tier == "thorough" {
				return "n=3 rows of P=4 physical rows in every arrangement for single int/bool/string/enum keys (all 8 start slots for int), one fixed arrangement for float and two-column keys, both Null settings, 10 aggregations on n=4; hash table of 8 slots end-to-end; the table itself across growth steps (hash = key with 6-11 rows and keys spread or in one probe chain; uninterpreted hash with start slots {0,1,8,15})"
			}
			return "n=3 rows of P=4 physical rows (fixed non-identity arrangement), 1-2 key columns of all five types, both Null settings, 8 aggregations (on a concrete bool key pattern and without key; cell values symbolic); hash table of 8 slots; user aggregations returning their first/last argument on a concrete string column; a concrete enum key pattern with three nulls (n=4 in every arrangement, n=5); plus the table itself across its first growth step (7 rows, 5-6 distinct abstract keys, hash = key, keys spread or all in one probe chain (stride 8/16); thorough: also an uninterpreted hash with start slots {0,1,8,15})"
		},
		Assume: assume, Outside: []string{"more than 2 key columns", "tables larger than 8 slots / growth steps (grouping more than 4 distinct keys)", "GroupStats values"},
		MinReach: []string{"end"}, TVVectors: 2, Solver: "z3-new -in",
	})
	register(&Property{
		ID: "C05", Dirs: []string{"root", "internal/grouper"},
		Jobs:   func(tier string) []Job { return c04jobs("VX_C05_distinct", tier) },
		Bounds: func(tier string) string {
			if tier == "thorough" {
				return "n=3 rows of P=4 physical rows in every arrangement for single int/bool/string/enum keys (all 8 start slots for int), one fixed arrangement for float and two-column keys, or all columns, both Null settings; concrete enum key pattern with three nulls (n=4 every arrangement, n=5); source frame and first result re-observed after a second Distinct; the table itself across growth steps"
			}
			return "n=3 rows of P=4 physical rows (fixed non-identity arrangement), 1-2 key columns of all five types or all columns, both Null settings; a concrete enum key pattern with three nulls (n=4 in every arrangement, n=5); the source frame and the first result re-observed after a second Distinct; the hash table across its first growth step incl. keys in one probe chain"
		},
		Assume: assume[:2], Outside: []string{"more than 2 key columns", "tables larger than 8 slots / growth steps"},
		MinReach: []string{"end"}, TVVectors: 2, Solver: "z3-new -in",
	})
}

func init() {
	register(&Property{
		ID: "C06", Dirs: []string{"root"},
		Jobs: func(tier string) []Job {
			n, pp := 2, 3
			if tier == "thorough" {
				n, pp = 3, 4
			}
			var steps []string
			for _, k := range []string{"const_int", "const_float", "const_bool", "const_string", "const_nil", "fn0_counter", "fn0_uf"} {
				steps = append(steps, k+":z", k+":a")
			}
			steps = append(steps, "copy:z:b", "copy:a:b", "copy:a:a", "copy:s:e")
			srcCol := map[string]string{"int": "a", "float": "f", "bool": "c", "string": "s", "enum": "e"}
			for _, src := range []string{"int", "float", "bool", "string", "enum"} {
				for _, res := range []string{"int", "float", "bool", "string"} {
					st := src
					if src == "enum" {
						st = "string"
					}
					steps = append(steps, "fn1:z:"+srcCol[src]+"::"+st+">"+res)
				}
				steps = append(steps, "fn1:"+srcCol[src]+":"+srcCol[src]+"::"+map[string]string{"int": "int", "float": "float", "bool": "bool", "string": "string", "enum": "string"}[src]+">int")
			}
			steps = append(steps, "fn2:z:a:b:int", "fn2:a:a:b:int", "fn2:b:a:b:int", "fn2:z:a:a:int", "fn2:z:f:f:float", "fn2:z:c:c:bool", "fn2:z:s:s:string", "fn2:s:s:s:string", "fn2:z:e:e:enum")
			steps = append(steps, "upper:z:s", "upper:s:s", "upper:z:e")

			// sequences: second reads the first's destination; same destination twice; chain through new column
			steps = append(steps, "fn1:z:a::int>int;fn1:y:z::int>float", "const_int:z;const_float:z", "fn1:a:a::int>int;fn2:b:a:b:int", "copy:z:b;fn2:z:z:a:int", "fn0_counter:z;fn0_counter:y")
			var jobs []Job
			for _, s := range steps {
				jobs = append(jobs, Job{Harness: "VX_C06_apply", Params: P("steps", s, "mode", "apply", "n", itoa(n), "P", itoa(pp))})
			}
			for _, s := range []string{"const_int:z", "const_int:a", "fn1:z:a::int>float", "fn1:a:a::int>int", "fn2:z:a:b:int", "fn1:z:s::string>string", "copy:z:f", "const_string:s", "fn1:z:a::int>int;fn1:y:z::int>float", "upper:z:s", "upper:s:s", "upper:z:e", "upper:e:e"} {
				jobs = append(jobs, Job{Harness: "VX_C06_apply", Params: P("steps", s, "mode", "filtered", "n", itoa(n), "P", itoa(pp))})
			}
			jobs = append(jobs, Job{Harness: "VX_C06_apply", Params: P("steps", "", "mode", "rownums", "n", itoa(n), "P", itoa(pp))})
			// full-length permuted index (n == P): no row removed, order changed
			for _, s := range []string{"fn0_counter:z", "fn0_uf:z", "const_int:z", "const_string:z", "fn1:z:a::int>int", "fn1:a:a::int>float", "fn2:z:a:b:int", "fn1:z:s::string>string", "copy:z:b", "upper:z:s", "fn1:z:e::string>int"} {
				jobs = append(jobs, Job{Harness: "VX_C06_apply", Params: P("steps", s, "mode", "apply", "n", "3", "P", "3")})
			}
			// enum values that differ only in case, built-in ToUpper, full-length and partial frames
			for _, np := range [][2]string{{"3", "3"}, {"2", "3"}} {
				jobs = append(jobs, Job{Harness: "VX_C06_apply", Params: P("steps", "upper:z:e", "mode", "apply", "n", np[0], "P", np[1], "dup", "1")})
				jobs = append(jobs, Job{Harness: "VX_C06_apply", Params: P("steps", "upper:e:e", "mode", "apply", "n", np[0], "P", np[1], "dup", "1")})
			}
			jobs = append(jobs, Job{Harness: "VX_C06_apply", Params: P("steps", "", "mode", "rownums", "n", "3", "P", "3")})
			// user functions that may hand back their own argument (string and enum sources, one and two arguments)
			for _, src := range []string{"s", "e"} {
				for _, mode := range []string{"apply", "filtered"} {
					jobs = append(jobs, Job{Harness: "VX_C06_passthru", Params: P("src", src, "mode", mode, "args", "1"), MaxPaths: 100000})
				}
				jobs = append(jobs, Job{Harness: "VX_C06_passthru", Params: P("src", src, "mode", "apply", "args", "2"), MaxPaths: 100000})
			}
			jobs = append(jobs, Job{Harness: "VX_C06_apply", Params: P("steps", "fn1:z:a::int>int", "mode", "filtered", "n", "3", "P", "3")})
			// three rows out of four in every arrangement (non-ascending subsets whose end rows look like a range)
			for _, s := range []string{"fn2:z:a:b:int", "fn2:z:f:f:float", "fn2:z:c:c:bool", "fn1:z:a::int>int"} {
				jobs = append(jobs, Job{Harness: "VX_C06_apply", Params: P("steps", s, "mode", "apply", "n", "3", "P", "4")})
			}
			// frames that are projections of wider frames (column positions moved)
			for _, pre := range []string{"drop_first", "select_rev", "drop_mid"} {
				for _, s := range []string{"fn1:b:b::int>int", "fn2:c:c:c:bool", "const_int:b", "copy:s:e", "fn1:z:b::int>float", "fn1:e:e::string>int;fn1:b:b::int>int", "upper:s:s"} {
					jobs = append(jobs, Job{Harness: "VX_C06_apply", Params: P("steps", s, "mode", "apply", "n", itoa(n), "P", itoa(pp), "pre", pre)})
				}
			}
			return jobs
		},
		Bounds: func(tier string) string {
			if tier == "thorough" {
				return "frames of n=3 logical rows over P=4 physical rows in every arrangement, six columns (int,int,float,bool,string,enum), instruction lists of length 1-2 over constants, column copies, zero-argument functions, all 20 single-argument signatures, two-argument functions of every type, ToUpper, destinations new/overlapping sources; FilteredApply with a symbolic int clause (incl. ToUpper on string and enum columns); user functions handing back their own argument (4 concrete rows, string/enum, 1-2 arguments); sibling frames derived from one result; WithRowNums"
			}
			return "frames of n=2 logical rows over P=3 physical rows in every arrangement, six columns (int,int,float,bool,string,enum), instruction lists of length 1-2 over constants, column copies, zero-argument functions, all 20 single-argument signatures, two-argument functions of every type, ToUpper, destinations new/overlapping sources; FilteredApply with a symbolic int clause (incl. ToUpper on string and enum columns); user functions handing back their own argument (4 concrete rows, string/enum, 1-2 arguments); sibling frames derived from one result; WithRowNums"
		},
		Assume:   []string{"user functions are uninterpreted functions of their arguments (functions returning *string: uninterpreted nullness and one uninterpreted byte)", "ToUpper is checked for structure on cells over {a,B,z}; the rune mapping is C18's"},
		Outside:  []string{"instruction lists longer than 2", "n > 3"},
		MinReach: []string{"end"}, TVVectors: 2,
	})
}

func c07exprs(tier string) []string {
	leaves := []string{"a", "b", "#i"}
	var d1 []string
	for _, op := range []string{"-", "u2", "+"} {
		for _, x := range leaves {
			for _, y := range leaves {
				d1 = append(d1, "( "+op+" "+x+" "+y+" )")
			}
		}
	}
	for _, op := range []string{"abs", "u1"} {
		for _, x := range leaves {
			d1 = append(d1, "( "+op+" "+x+" )")
		}
	}
	out := append([]string{}, d1...)
	sub := []string{"( - a b )", "( u2 #i a )", "( abs a )"}
	var d2 []string
	for _, op := range []string{"-", "u2"} {
		for _, e := range sub {
			for _, x := range leaves {
				d2 = append(d2, "( "+op+" "+e+" "+x+" )", "( "+op+" "+x+" "+e+" )")
			}
			for _, e2 := range sub {
				d2 = append(d2, "( "+op+" "+e+" "+e2+" )")
			}
		}
	}
	for _, e := range sub {
		d2 = append(d2, "( u1 "+e+" )", "( abs "+e+" )")
	}
	if tier == "thorough" {
		out = append(out, d2...)
		// depth 3 samples
		out = append(out, "( - ( u2 ( - a #i ) b ) ( abs ( u1 b ) ) )", "( u2 #i ( - ( u2 a b ) ( u1 #i ) ) )", "( - ( - ( - a b ) #i ) ( - #i ( - b a ) ) )")
	} else {
		for k := 0; k < len(d2); k += 4 {
			out = append(out, d2[k])
		}
	}
	out = append(out,
		"( - a b #i )", "( u2 a #i b )", "( u2 #i a b )", "( - a b a b )", "( u2 ( - a b ) #i b )", "( + a ( - a b ) #i )",
		"( - f g )", "( - #f f )", "( u2 #f f )", "( u2 f #f )", "( + f g f )", "( u1 f )",
		"( & c d )", "( nand #b c )", "( ! c )", "( | c ( ! d ) )", "( u2 #b c )", "( u2 c #b )", "( int c )",
		"( + s t )", "( + s #s )", "( + #s s )", "( len s )", "( + s t s )", "( len ( + s #s ) )", "( str s )", "( us s )", "( us e )", "( len e )",
		"a", "#i", "#s", "f", "s", "#b",
	)
	return out
}

func init() {
	register(&Property{
		ID: "C07", Dirs: []string{"root"},
		Jobs: func(tier string) []Job {
			var jobs []Job
			exprs := c07exprs(tier)
			for k, e := range exprs {
				dst := "z"
				if k%5 == 1 {
					dst = "a"
				} else if k%5 == 3 {
					dst = "x"
				}
				jobs = append(jobs, Job{Harness: "VX_C07_eval", Params: P("expr", e, "dst", dst, "n", "2", "P", "3")})
				if tier == "thorough" && k%2 == 0 {
					// every second expression also on 3 of 4 physical rows and on a full-length permuted frame
					jobs = append(jobs, Job{Harness: "VX_C07_eval", Params: P("expr", e, "dst", dst, "n", "3", "P", "4")})
					jobs = append(jobs, Job{Harness: "VX_C07_eval", Params: P("expr", e, "dst", dst, "n", "3", "P", "3")})
				}
			}
			for _, tc := range []string{"const-temp-0", "colcol-temp-0", "unary-temp-0", "const-temp-1"} {
				for _, e := range []string{"( - #i a )", "( u2 ( - a b ) #i )", "( abs ( u1 a ) )", "( - a b #i )", "#i"} {
					jobs = append(jobs, Job{Harness: "VX_C07_eval", Params: P("expr", e, "dst", "z", "n", "2", "P", "3", "tempcol", tc)})
				}
			}
			for _, e := range []string{"( abs @a )", "( u1 @a )", "( - @a b )", "( u2 @a @b )", "( u2 #i @a )", "( u1 ( - @a #i ) )", "( - ( abs @a ) @b )", "@a"} {
				for _, dst := range []string{"z", "a"} {
					jobs = append(jobs, Job{Harness: "VX_C07_eval", Params: P("expr", e, "dst", dst, "n", "2", "P", "3")})
				}
			}
			for _, e := range []string{"( - a b )", "( abs a )", "a", "( u2 ( - a b ) #i )"} {
				jobs = append(jobs, Job{Harness: "VX_C07_eval", Params: P("expr", e, "dst", "z", "n", "2", "P", "3", "sib", "1")})
			}
			jobs = append(jobs, Job{Harness: "VX_C07_ctx"}, Job{Harness: "VX_C07_upper"})
			for _, c := range []string{"unknown_fn", "unknown_fn1", "unknown_col", "unknown_col_const", "type_mismatch", "type_mismatch_const", "no_args", "malformed_list", "malformed_op", "not_a_list", "nested_error", "nested_error_lhs"} {
				jobs = append(jobs, Job{Harness: "VX_C07_errors", Params: P("case", c)})
			}
			return jobs
		},
		Bounds: func(tier string) string {
			if tier == "thorough" {
				return "frames of n=2 logical rows over P=3 physical rows in every arrangement (every second expression also n=3 of P=4 and n=P=3); all int expression trees of depth <=2 over {a,b,const} x {-,+,u2,abs,u1} (u1/u2 user-registered uninterpreted functions), depth-3 samples, n-ary Expr up to 4 args, float/bool/string samples, leaf expressions; destinations new/source/other; frames that already hold a *-temp-* column; 12 malformed/ill-typed expressions"
			}
			return "frames of n=2 logical rows over P=3 physical rows in every arrangement; all int expression trees of depth 1 and a quarter of depth 2 over {a,b,const} x {-,+,u2,abs,u1} (u1/u2 user-registered uninterpreted functions), n-ary Expr up to 4 args, float/bool/string samples, leaf expressions; destinations new/source/other; frames that already hold a *-temp-* column; 12 malformed/ill-typed expressions"
		},
		Assume:   []string{"int division excluded (documented panic on zero)", "user functions are uninterpreted; float arithmetic compared as identical terms"},
		Outside:  []string{"trees deeper than 3", "more than 2 rows"},
		MinReach: []string{"end"}, TVVectors: 2,
	})
}

func init() {
	register(&Property{
		ID: "C09", Dirs: []string{"root"},
		Jobs: func(tier string) []Job {
			n, pp := 2, 3
			if tier == "thorough" {
				n, pp = 3, 4
			}
			jobs := []Job{{Harness: "VX_C09_observe", Params: P("n", itoa(n), "P", itoa(pp))}, {Harness: "VX_C09_observe", Params: P("n", "3", "P", "3", "ix", "swap01")}, {Harness: "VX_C09_observe", Params: P("n", "2", "P", "3", "pre", "select_copy")}, {Harness: "VX_C09_observe", Params: P("n", "2", "P", "3", "pre", "siblings")}, {Harness: "VX_C09_observe", Params: P("n", "4", "P", "4", "ix", "mid")}}
			for _, sk := range []string{"ifb", "se", "i"} {
				n2, p2 := n, pp
				if sk == "se" {
					// two independent arrangements of string/enum frames: P=2 (thorough 3) keeps it within minutes
					n2, p2 = 2, 2
					if tier == "thorough" {
						p2 = 3
					}
				}
				jobs = append(jobs, Job{Harness: "VX_C09_equals", Params: P("skel", sk, "n", itoa(n2), "P", itoa(p2))})
				if sk == "se" {
					jobs = append(jobs, Job{Harness: "VX_C09_equals", Params: P("skel", sk, "n", "2", "P", "2", "shared", "1")})
				}
			}
			jobs = append(jobs, c14rowCountJobs(tier)...)
			for _, c := range []string{"renamed", "reordered", "enum_vs_string", "float_vs_int", "fewer_cols", "fewer_rows"} {
				jobs = append(jobs, Job{Harness: "VX_C09_mismatch", Params: P("case", c)})
			}
			{
				jobs = append(jobs, Job{Harness: "VX_C09_enum_dicts"})
			}
			for _, op := range []string{"filter", "sort", "slice", "select", "copy"} {
				jobs = append(jobs, Job{Harness: "VX_C09_rebuild", Params: P("op", op, "n", "2", "P", "3")})
				if tier == "thorough" {
					jobs = append(jobs, Job{Harness: "VX_C09_rebuild", Params: P("op", op, "n", "3", "P", "3")})
				}
			}
			return jobs
		},
		Bounds: func(tier string) string {
			if tier == "thorough" {
				return "frames of n=3 logical rows over P=4 physical rows in every arrangement with all five column types (strings 1 byte, one nullable cell per string/enum column); pairs of frames with independent symbolic indexes; full-length indexes that keep the end rows in place (n=4); sibling frames; Equals of derived enums with different dictionaries over {null,x,b,c}^3"
			}
			return "frames of n=2 logical rows over P=3 physical rows in every arrangement with all five column types (strings 1 byte, one nullable cell per string/enum column); pairs of frames with independent symbolic indexes; full-length indexes that keep the end rows in place (n=4); sibling frames; Equals of derived enums with different dictionaries over {null,x,b,c}^3"
		},
		Assume: []string{
			"decimal text of symbolic numbers is an injective fixed-width model (DESIGN 3.4); the real digit code is C16's",
			"ToCSV is observed through a recording model of encoding/csv.Writer (quoting layer is C13's); ToJSON records are checked under C14",
			"String() is compared with a transcription of its documented layout (width max(len(header),5), '...' truncation, 50-row cap not reached)",
		},
		Outside:  []string{"more than 3 rows; the 50-row cut of String", "ToJSON (see C14)"},
		MinReach: []string{"end"}, TVVectors: 2,
	})
}

func init() {
	c10cases := []string{"filter_unknown_col", "filter_unknown_cmp_int", "filter_unknown_cmp_float", "filter_unknown_cmp_bool", "filter_unknown_cmp_string", "filter_unknown_cmp_enum", "filter_cmp_not_string", "filter_fn_wrong_type_int", "filter_fn_wrong_type_string", "filter_fn_wrong_type_enum", "filter_arg_wrong_type_int", "filter_arg_wrong_type_float", "filter_arg_int_for_float", "filter_arg_nan", "filter_arg_wrong_type_bool", "filter_arg_wrong_type_string", "filter_arg_wrong_type_enum", "filter_arg_struct", "filter_arg_nil_cmp_lt", "filter_arg_mixed_list", "filter_arg_list_for_lt", "filter_unknown_arg_col", "filter_arg_col_type_mismatch", "filter_arg_col_type_mismatch2", "filter_fn2_without_col", "filter_enum_unknown_value", "filter_bad_regex", "filter_bad_regex_enum", "and_empty", "or_empty", "not_invalid", "nested_invalid", "inverse_invalid", "sort_unknown", "select_unknown", "slice_bad", "copy_unknown", "copy_self_unknown", "apply_copy_self_unknown", "eval_val_unknown_self", "or_all_rows_then_invalid", "or_complement_then_invalid", "and_none_then_invalid", "empty_frame_invalid_filter", "empty_frame_or_invalid_leaf_then_nested", "filtered_out_or_invalid_leaf_then_nested", "empty_frame_or_nested_invalid_then_nested", "or_invalid_leaf_then_nested", "and_nested_then_invalid_on_empty", "not_invalid_on_empty", "empty_frame_invalid_apply", "empty_frame_invalid_sort", "copy_badname", "apply_unknown_src", "apply_unknown_src2", "apply_fn_wrong_type", "apply_fn_wrong_type_string", "apply_fn_wrong_type_enum", "apply_fn0_invalid", "apply_fn0_func_wrong", "apply_fn2_mismatched_cols", "apply_fn2_wrong_fn", "apply_fn2_mismatched_string_enum", "apply_unknown_builtin", "apply_unknown_builtin_int", "apply_unknown_builtin2", "apply_bad_dst", "apply_empty_dst", "apply_copy_unknown", "filteredapply_invalid_clause", "filteredapply_invalid_instr", "eval_unknown_fn", "eval_fn_of_other_ctx", "eval_bad_dst", "distinct_unknown", "rownums_bad_name", "groupby_unknown", "empty_frame_groupby_unknown", "empty_frame_distinct_unknown", "empty_frame_groupby_unknown_agg", "filter_bad_regex_twice", "filter_bad_regex_twice_ilike", "apply_second_after_failed_first", "filteredapply_second_after_failed_first", "new_enum_on_int_column", "new_enum_on_const_bool", "aggregate_unknown_col", "aggregate_unknown_fn", "aggregate_fn_wrong_type", "aggregate_fn_wrong_type_string", "aggregate_fn_wrong_type_enum", "aggregate_on_group_col", "aggregate_duplicate", "aggregate_string_builtin"}
	register(&Property{
		ID: "C10", Dirs: []string{"root"},
		Jobs: func(tier string) []Job {
			var jobs []Job
			for _, c := range c10cases {
				jobs = append(jobs, Job{Harness: "VX_C10_invalid", Params: P("case", c)})
			}
			jobs = append(jobs, Job{Harness: "VX_C10_views"}, Job{Harness: "VX_C07_ctx"})
			firsts := []string{"filter_unknown_col", "and_empty", "sort_unknown", "apply_fn0_invalid", "slice_bad", "groupby_unknown"}
			if tier == "thorough" {
				firsts = c10cases
			}
			for _, c := range firsts {
				jobs = append(jobs, Job{Harness: "VX_C10_sticky", Params: P("first", c)})
			}
			return jobs
		},
		Bounds: func(tier string) string {
			return "90 misuse cases (incl. misuse on frames without rows and the same malformed pattern used repeatedly) (one invalid argument per call: unknown columns, comparators, function/argument types outside the documented unions, illegal names, bad slice bounds over all ints, empty And/Or, malformed expressions, mismatched column types, invalid aggregations) on a derived frame with one column per type and symbolic cells; sticky-error chains of every chainable operation after 6 (thorough: every) first error"
		},
		Assume:   []string{"documented panics (Must*View, ItemAt out of range, DivI by zero) are excluded", "a panic on any feasible path is a violation (engine-level obligation)"},
		Outside:  []string{"two simultaneous misuses in one call", "ReadCSV/ReadJSON/ReadSQL argument misuse (C12, C15)"},
		MinReach: []string{"end"}, TVVectors: 1,
	})
}

var c01ops = []string{"filter", "filter_or", "filter_notand", "filter_inv", "sort", "sort2", "slice", "slice_tail", "select", "drop", "copy", "copy_over",
	"apply_fn1", "apply_fn2", "apply_const", "apply_upper", "filtered_apply", "eval", "rownums", "distinct", "aggregate", "qframes",
	"copy_y", "rownums_new", "eval_new", "apply_new", "aggregate_nokey", "qframes_aggregate",
	"grouper_aggregate", "filter_ilike", "filter_like_regex", "eval_ctx", "tosql", "filter_promote", "distinct_float", "groupby_float", "upper_enum", "filter_and_all", "aggregate_mutating", "apply_selfcopy_then", "views", "tocsv", "tojson", "string", "equals"}

func c01jobs(tier string, strict bool) []Job {
	var jobs []Job
	st := "false"
	if strict {
		st = "true"
	}
	n, pp := 3, 4
	if tier == "thorough" {
		n, pp = 4, 5
	}
	for _, op := range c01ops {
		jobs = append(jobs, Job{Harness: "VX_C01_persist", Params: P("ops", op, "n", itoa(n), "P", itoa(pp), "strict", st)})
	}
	// false twins (vacuity guards): must be refuted
	jobs = append(jobs, Job{Harness: "VX_C01_persist", Params: P("ops", "x_inplace_swap", "n", itoa(n), "P", itoa(pp), "strict", st), ExpectSat: true})
	if strict {
		jobs = append(jobs, Job{Harness: "VX_C01_persist", Params: P("ops", "x_append_spare", "n", itoa(n), "P", itoa(pp), "strict", st), ExpectSat: true})
	}
	pairs := []string{"slice,sort", "slice,filter_or", "sort,slice", "filter,apply_fn1", "slice,filter_notand", "sort,sort2", "copy,apply_fn2", "select,copy", "filter,distinct", "slice,qframes", "apply_fn1,eval", "slice_tail,filter", "filter,filter_inv", "slice,aggregate", "sort,filtered_apply", "rownums,sort",
		"copy,copy_y", "copy,rownums_new", "apply_new,eval_new", "eval_new,copy", "rownums_new,apply_new", "copy,copy_y,apply_new", "sort,aggregate_nokey", "slice,aggregate_nokey", "sort,qframes_aggregate", "filter_promote,sort", "filter_and_all,sort", "slice,filter_and_all", "filter_ilike,filter_ilike", "filter_like_regex,filter_like_regex", "grouper_aggregate,grouper_aggregate", "tosql,tosql"}
	// the same operation on sibling views of one storage (other row set / row order), first result re-observed
	for _, x := range []string{"apply_upper", "upper_enum", "apply_fn1", "eval_new", "filtered_apply"} {
		pairs = append(pairs, x+","+x+"@tail", x+","+x+"@base")
	}
	if tier == "thorough" {
		for _, x := range []string{"sort", "apply_const"} {
			pairs = append(pairs, x+","+x+"@tail", x+","+x+"@base")
		}
		for _, a := range []string{"slice", "sort", "filter", "slice_tail", "copy", "apply_fn1"} {
			for _, b := range c01ops {
				pairs = append(pairs, a+","+b)
			}
		}
		pairs = append(pairs, "slice,sort,filter_or", "sort,slice,filter", "filter,sort,slice", "slice,slice_tail,sort", "copy,apply_fn2,eval")
	}
	for _, p := range pairs {
		jobs = append(jobs, Job{Harness: "VX_C01_persist", Params: P("ops", p, "n", itoa(n), "P", itoa(pp), "strict", st)})
		jobs = append(jobs, Job{Harness: "VX_C01_persist", Params: P("ops", p, "n", itoa(n), "P", itoa(pp), "strict", st, "on0", "1")})
	}
	return jobs
}

func init() {
	register(&Property{
		ID: "C01", Dirs: []string{"root", "internal/grouper"},
		Jobs:   func(tier string) []Job { return append(c01jobs(tier, false), c04bigJobs(tier, false)...) },
		Bounds: func(tier string) string {
			if tier == "thorough" {
				return "family {base (P=5 rows, shared column storage via Copy), f0 = permuted+sliced frame with spare index capacity (n=4), results}; numeric cells symbolic, string/enum cells concrete; every one of 45 operations as single step; 6x27 two-step histories applied both to the newest member and to the shared ancestor; 5 three-step histories; every member re-observed (Len, names, types, Err, every cell through the typed views) after every step"
			}
			return "family {base (P=4 rows, shared column storage via Copy), f0 = permuted+sliced frame with spare index capacity (n=3), results}; numeric cells symbolic, string/enum cells concrete; every one of 45 operations as single step; 16 two-step histories applied both to the newest member and to the shared ancestor; every member re-observed after every step"
		},
		Assume:   []string{"frames are built through New/Copy/withIndex/Slice so that column storage and index storage are shared", "user functions uninterpreted; hash uninterpreted"},
		Outside:  []string{"histories longer than 3; more than 3 physical rows", "Append, Rolling"},
		MinReach: []string{"end"}, TVVectors: 1, Solver: "z3-new -in",
	})
	register(&Property{
		ID: "C11", Dirs: []string{"root", "internal/grouper"}, Level: "other",
		Jobs:   func(tier string) []Job { return append(c01jobs(tier, true), c04bigJobs(tier, true)...) },
		Bounds: func(tier string) string {
			return "same operation set and frame families as C01; obligation per step: the engine's write monitor saw no store (Store, copy, in-place append, map update) into any memory cell reachable from any family member (incl. a Grouper obtained earlier and spare capacity behind slices) or from any package-level variable of tobgu/qframe, no sync.Map/sync.Once mutation (process-wide state), and no load or store of memory reachable from an object after it was handed to sync.Pool.Put"
		},
		Assume: []string{
			"REDUCED FORM: interleavings are not encoded (no Go memory-model encoder available). Decided instead: every operation writes only to memory it allocated itself during the call. By the Go memory model, operations that only read shared locations cannot race, so this sequential condition implies race freedom for any multiset of these operations under every schedule; determinism of each operation gives 'same result as alone'",
			"math/rand, regexp, unicode, strconv, fmt are goroutine-safe per their documentation (trusted)",
		},
		Outside:  []string{"user callbacks that themselves share state", "operations outside the C01 operation set"},
		MinReach: []string{"end"}, TVVectors: 0, Solver: "z3-new -in",
	})
}

func init() {
	register(&Property{
		ID: "C12", Dirs: []string{"internal/fastcsv", "root"},
		Jobs: func(tier string) []Job {
			var jobs []Job
			maxL := 4
			caps := []int{1, 1024}
			if tier == "thorough" {
				maxL = 6
			}
			for L := 0; L <= maxL; L++ {
				for _, c := range caps {
					jobs = append(jobs, Job{Harness: "VX_C12_scan", Params: P("L", itoa(L), "cap", itoa(c), "sched", "any"), MaxPaths: 2000000})
				}
			}
			if tier == "thorough" {
				for L := 0; L <= 5; L++ {
					for _, c := range []int{2, 3} {
						jobs = append(jobs, Job{Harness: "VX_C12_scan", Params: P("L", itoa(L), "cap", itoa(c), "sched", "any"), MaxPaths: 2000000})
					}
				}
				jobs = append(jobs, Job{Harness: "VX_C12_scan", Params: P("L", "7", "cap", "1024", "sched", "whole"), MaxPaths: 2000000})
			} else {
				jobs = append(jobs, Job{Harness: "VX_C12_scan", Params: P("L", "5", "cap", "1024", "sched", "whole"), MaxPaths: 2000000})
				jobs = append(jobs, Job{Harness: "VX_C12_scan", Params: P("L", "3", "cap", "2", "sched", "any"), MaxPaths: 2000000})
			}
			// a delimiter byte outside ASCII (0xA7) with cells of non-UTF-8 bytes
			jobs = append(jobs, Job{Harness: "VX_C12_scan", Params: P("L", "4", "cap", "1024", "sched", "whole", "delim", "167"), MaxPaths: 2000000})
			jobs = append(jobs, Job{Harness: "VX_C12_scan", Params: P("L", "3", "cap", "1", "sched", "any", "delim", "167"), MaxPaths: 2000000})
			jobs = append(jobs, Job{Harness: "VX_C12_infer", Params: P("rows", "1", "emptynull", "false", "wide", "1"), MaxPaths: 500000})
			jobs = append(jobs, Job{Harness: "VX_C12_infer", Params: P("rows", "2", "emptynull", "true", "wide", "1"), MaxPaths: 500000})
			for _, en := range []string{"false", "true"} {
				jobs = append(jobs, Job{Harness: "VX_C12_infer", Params: P("rows", "1", "emptynull", en), MaxPaths: 500000})
				jobs = append(jobs, Job{Harness: "VX_C12_infer", Params: P("rows", "2", "emptynull", en), MaxPaths: 500000})
			}
			for _, c := range []string{"headers", "ignore_empty", "empty_kept_single_col", "rename_dup", "ignore_empty_single_col", "rename_dup_later", "enum_map_reuse", "enum_option_reuse", "missing_alias", "delimiter", "enum_declared", "typed_failure", "column_count", "rowcount_hint"} {
				jobs = append(jobs, Job{Harness: "VX_C12_options", Params: P("case", c), MaxSteps: 80000000})
			}
			return jobs
		},
		Bounds: func(tier string) string {
			if tier == "thorough" {
				return "scanner: every well-formed document of length <=6 over the class alphabet {delimiter, quote, LF, CR, a, b}, initial buffer capacity 1 and 1024 (2 and 3 up to length 5), every sequence of read sizes and both EOF styles; length 7 with whole-buffer reads; ReadCSV layer as in the quick tier; delimiter 0xA7 with cells over Latin-1/partial UTF-8 bytes (length <=4)"
			}
			return "scanner: every well-formed document of length <=4 over the class alphabet {delimiter, quote, LF, CR, a, b}, initial buffer capacity 1 and 1024 (2 at length 3), every sequence of read sizes and both EOF styles; length 5 with whole-buffer reads; ReadCSV layer: type inference on 2 columns x 1-2 rows with cells over {empty,1,7,t,x,.} and both EmptyNull settings, and 10 option layouts (Headers, IgnoreEmptyLines, single-column empty lines, RenameDuplicateColumns, MissingColumnNameAlias, Delimiter, Types/EnumValues, typed failure, column count mismatch, RowCountHint across the 1000-row resize) with symbolic cells; delimiter 0xA7 with cells over Latin-1/partial UTF-8 bytes (length <=4); inference cells include -0, +1, 1.5; RenameDuplicateColumns against later names; one EnumValues map used for several reads"
		},
		Assume:   []string{"well-formed = accepted by the harness's RFC 4180 recogniser; CR only as part of a CRLF record end (CR inside quoted fields excluded)", "(0,nil) reads excluded (discouraged by io.Reader)", "the reader is constructed directly (as NewReader does) so that tiny buffer capacities exercise reallocation and compaction"},
		Outside:  []string{"documents longer than the bound; fields crossing the real 1 KiB buffer (exercised instead through capacity 1..3)", "ReadCSV options and inference beyond the layouts listed in bounds"},
		MinReach: []string{"end"}, TVVectors: 3,
	})
}

func init() {
	register(&Property{
		ID: "C18", Dirs: []string{"internal/strings", "root"},
		Jobs: func(tier string) []Job {
			var jobs []Job
			kinds, maxn := 5, 2
			if tier == "thorough" {
				kinds, maxn = 7, 2
			}
			for _, cs := range []string{"true", "false"} {
				for _, pre := range []string{"false", "true"} {
					for _, post := range []string{"false", "true"} {
						for np := 0; np <= maxn; np++ {
							for nc := 0; nc <= maxn; nc++ {
								if np == 0 && nc > 1 {
									continue
								}
								kk := kinds
								if tier != "thorough" && np+nc > 2 {
									kk = 3
								}
								if tier == "thorough" && np+nc > 2 {
									kk = 5
								}
								if tier == "thorough" && np+nc > 3 {
									kk = 4
								}
								jobs = append(jobs, Job{Harness: "VX_C18_plain", Params: P("cs", cs, "pre", pre, "post", post, "np", itoa(np), "nc", itoa(nc), "kinds", itoa(kk)), MaxPaths: 500000})
							}
						}
					}
				}
				// case folding vs upper-casing (Kelvin sign, Ohm sign, capital sharp s, Angstrom sign)
				for _, pp := range [][2]string{{"false", "false"}, {"true", "false"}, {"false", "true"}, {"true", "true"}} {
					jobs = append(jobs, Job{Harness: "VX_C18_plain", Params: P("cs", cs, "pre", pp[0], "post", pp[1], "np", "1", "nc", "1", "kinds", "10", "runes", "fold"), MaxPaths: 500000})
				}
				// a literal % next to the wildcard (patterns %%x, x%%, %%x%)
				jobs = append(jobs, Job{Harness: "VX_C18_plain", Params: P("cs", cs, "pre", "true", "post", "false", "np", "1", "nc", "2", "kinds", "2", "lit", "pre"), MaxPaths: 500000})
				jobs = append(jobs, Job{Harness: "VX_C18_plain", Params: P("cs", cs, "pre", "false", "post", "true", "np", "1", "nc", "2", "kinds", "2", "lit", "post"), MaxPaths: 500000})
				jobs = append(jobs, Job{Harness: "VX_C18_plain", Params: P("cs", cs, "pre", "true", "post", "true", "np", "0", "nc", "2", "kinds", "2", "lit", "pre"), MaxPaths: 500000})
				for _, only := range []string{"%", "%%"} {
					jobs = append(jobs, Job{Harness: "VX_C18_plain", Params: P("cs", cs, "pre", "true", "post", "true", "np", "0", "nc", "1", "kinds", itoa(kinds), "only", only)})
				}
				if tier == "thorough" {
					jobs = append(jobs, Job{Harness: "VX_C18_plain", Params: P("cs", cs, "pre", "true", "post", "true", "np", "1", "nc", "3", "kinds", "4"), MaxPaths: 2000000})
				}
				for _, pat := range []string{"a.c", "%a.c", "a.c%", "%a.c%", "a(b", "%(", "[a-c]+", ".*", "%.%", "^a$", "a|b", "%a\\", "(?i)a.", "a{2}", "\\d.", "[[:alpha:]]c", "a\\x41"} {
					jobs = append(jobs, Job{Harness: "VX_C18_regex", Params: P("cs", cs, "pattern", pat, "nc", "2")})
				}
			}
			jobs = append(jobs, c18seqJobs()...)
			for _, cmp := range []string{"like", "ilike"} {
				for _, pat := range []string{"b", "%b", "b%", "%b%", "B", "%", "b.", "%(", ""} {
					jobs = append(jobs, Job{Harness: "VX_C18_columns", Params: P("cmp", cmp, "pattern", pat)})
					if pat == "B" || pat == "%" || pat == "b%" {
						jobs = append(jobs, Job{Harness: "VX_C18_columns", Params: P("cmp", cmp, "pattern", pat, "dup", "1")})
					}
					if pat == "b%" || pat == "b." || pat == "B" {
						jobs = append(jobs, Job{Harness: "VX_C18_columns", Params: P("cmp", cmp, "pattern", pat, "ctx", "or")})
					}
				}
			}
			return jobs
		},
		Bounds: func(tier string) string {
			if tier == "thorough" {
				return "cells and patterns of <=2 rune positions (3 in two extra jobs), each position a symbolic ASCII byte (all 128 values) or one of U+0080, µ, ÿ, ı, ſ, ɐ, ⱥ, U+10428, U+FFFD; all four %-placements, patterns % and %%, like and ilike; one matcher used for two consecutive cells (buffer reuse); 14 regex patterns incl. invalid ones against symbolic 2-byte ASCII cells; string column vs enum column on 9 patterns; string vs enum columns incl. an enum whose dictionary holds a string twice and the pattern filter as later member of an Or"
			}
			return "cells and patterns of <=2 rune positions, each position a symbolic ASCII byte (all 128 values) or one of U+0080, µ, ÿ, ı (only U+0080, µ when pattern+cell have more than 2 positions); all four %-placements, patterns % and %%, like and ilike; one matcher used for two consecutive cells (buffer reuse); 14 regex patterns incl. invalid ones against symbolic 2-byte ASCII cells; string column vs enum column on 9 patterns; string vs enum columns incl. an enum whose dictionary holds a string twice and the pattern filter as later member of an Or"
		},
		Assume:   []string{"Go's regexp is the oracle for regex patterns: (*Regexp).MatchString is an uninterpreted predicate of (pattern, subject); the check decides that the pattern handed to regexp.Compile is the documented transformation and that compile errors propagate", "unicode.ToUpper for non-ASCII code points is the host's (real tables, concrete code points); for ASCII it is arithmetic on a..z", "plain patterns: ASCII bytes are assumed not to be regex metacharacters or % (those are covered by the regex jobs and the %-flags)"},
		Outside:  []string{"code points outside the alphabet", "strings longer than 3 rune positions (the 10-byte initial buffer is crossed by 3 runes of 4 bytes only in the thorough job)"},
		MinReach: []string{"end"}, TVVectors: 3,
	})
}

func init() {
	register(&Property{
		ID: "C17", Dirs: []string{"root", "internal/ecolumn"},
		Jobs: func(tier string) []Job {
			jobs := []Job{{Harness: "VX_C17_bitset"}, {Harness: "VX_C17_toomany"}}
			sizes := []int{3, 65, 129, 255}
			if tier == "thorough" {
				sizes = []int{1, 2, 3, 64, 65, 128, 129, 192, 193, 254, 255}
			}
			for _, K := range sizes {
				consts := []int{0, K - 1}
				for _, b := range []int{63, 64, 127, 128, 191, 192} {
					if b < K-1 && b > 0 {
						consts = append(consts, b)
					}
				}
				for _, c := range consts {
					for _, cmp := range []string{"<", "<=", ">", ">=", "=", "!="} {
						if tier != "thorough" && c != 0 && c != K-1 && cmp != "<" && cmp != ">=" {
							continue
						}
						jobs = append(jobs, Job{Harness: "VX_C17_order", Params: P("K", itoa(K), "const", itoa(c), "cmp", cmp)})
					}
				}
				if K > 64 {
					jobs = append(jobs, Job{Harness: "VX_C17_order", Params: P("K", itoa(K), "const", "63", "const2", "64", "cmp", "in")})
				}
				if K > 128 {
					jobs = append(jobs, Job{Harness: "VX_C17_order", Params: P("K", itoa(K), "const", "127", "const2", "128", "cmp", "in")})
				}
				if K > 192 {
					jobs = append(jobs, Job{Harness: "VX_C17_order", Params: P("K", itoa(K), "const", "0", "const2", "192", "cmp", "in")})
				}
				jobs = append(jobs, Job{Harness: "VX_C17_items", Params: P("K", itoa(K))})
				if K <= 65 || tier == "thorough" {
					jobs = append(jobs, Job{Harness: "VX_C17_undeclared", Params: P("K", itoa(K))})
				}
			}
			for _, D := range []int{3, 253, 254, 255} {
				jobs = append(jobs, Job{Harness: "VX_C17_derived", Params: P("D", itoa(D))})
			}
			for _, D := range []int{3, 254, 255} {
				jobs = append(jobs, Job{Harness: "VX_C17_csv_derived", Params: P("D", itoa(D)), MaxSteps: 200000000})
			}
			jobs = append(jobs, Job{Harness: "VX_C17_csv_declared", Params: P()})
			// null stays distinct from every value also when two enum columns with different dictionaries are compared
			jobs = append(jobs, Job{Harness: "VX_C09_enum_dicts"}, Job{Harness: "VX_C17_slice_sorted"}, Job{Harness: "VX_C08_enum_empty"})
			for _, op := range []string{"none", "aggregate", "distinct", "sort", "filter", "copy", "qframes"} {
				jobs = append(jobs, Job{Harness: "VX_C17_history", Params: P("op", op)})
			}
			return jobs
		},
		Bounds: func(tier string) string {
			return "declared lists of size 3,65,129,255 (thorough: 1,2,3,64,65,128,129,192,193,254,255) and 256 (must fail), declared order opposite to the alphabet; two data cells with symbolic value index (all declared values) plus a null; constants at positions 0, K-1 and across the 64-bit word boundaries of the bitset; all six comparators, in-lists crossing word boundaries, Sort; undeclared 2-byte values symbolic; derived enums with 3/253/254/255 distinct values plus two symbolic (duplicate or fresh) cells; bitset set/isSet over all values and arbitrary prior contents; ReadCSV paths: derived enums of 3/254/255 values + one symbolic cell, one declaration used for three reads, leading empty cells; undeclared constants inside And/Or"
		},
		Assume:   []string{"enum value names are 2-byte strings computed from the value index", "ReadCSV/ReadJSON construction paths: the enum factory code is shared (AppendByteString/AppendString); those entry points are exercised in C13/C14 harnesses on small value sets"},
		Outside:  []string{"value names of other lengths; more than two symbolic data cells"},
		MinReach: []string{"end", "end-toomany"}, TVVectors: 2, Solver: "z3-new -in",
	})
}

func init() {
	register(&Property{
		ID: "C13", Dirs: []string{"root"},
		Jobs: func(tier string) []Job {
			var jobs []Job
			add := func(types string, n, strlen int, header, emptynull, reorder string) {
				jobs = append(jobs, Job{Harness: "VX_C13_roundtrip", Params: P("types", types, "n", itoa(n), "strlen", itoa(strlen), "header", header, "emptynull", emptynull, "reorder", reorder), MaxPaths: 300000})
			}
			sl := 2
			if tier == "thorough" {
				sl = 3
			}
			for _, en := range []string{"false", "true"} {
				add("string", 1, sl, "true", en, "false")
				add("string", 2, 1, "true", en, "false")
				add("string", 1, sl, "false", en, "false")
				add("string,int", 1, 1, "true", en, "true")
				add("int,string", 2, 1, "true", en, "false")
				add("enum,float", 2, 1, "true", en, "false")
				add("enum", 3, 1, "true", en, "false")
				jobs = append(jobs, Job{Harness: "VX_C13_roundtrip", Params: P("types", "string,int", "n", "2", "strlen", "1", "header", "true", "emptynull", en, "reorder", "false", "later", "1"), MaxPaths: 300000})
				add("float,bool", 2, 1, "true", en, "true")
				add("int", 2, 1, "false", en, "false")
				jobs = append(jobs, Job{Harness: "VX_C13_roundtrip", Params: P("types", "int,string", "n", "3", "strlen", "1", "header", "true", "emptynull", en, "reorder", "false", "ix", "full"), MaxPaths: 300000})
				jobs = append(jobs, Job{Harness: "VX_C13_roundtrip", Params: P("types", "float", "n", "2", "strlen", "1", "header", "true", "emptynull", en, "reorder", "false", "ix", "full"), MaxPaths: 300000})
				if en == "false" {
					jobs = append(jobs, Job{Harness: "VX_C13_specials"})
				}
				if tier == "thorough" {
					add("string,string", 1, 2, "true", en, "false")
					add("string", 2, 2, "true", en, "false")
					add("bool,enum", 2, 1, "false", en, "true")
				}
			}
			return jobs
		},
		Bounds: func(tier string) string {
			if tier == "thorough" {
				return "frames of 1-2 columns x 1-2 rows (derived: reversed rows of a larger physical frame), string cells of 0..3 bytes over {comma, quote, LF, space, a, backslash, dot, 0x80, 0xC3} and null, enum/int/float/bool cells symbolic; Header on/off, Columns(order), EmptyNull on/off; real encoding/csv.Writer, bufio, bytes.Reader, fastcsv, ReadCSV, New; enum column of 3 rows with null cells in any position (EmptyNull)"
			}
			return "frames of 1-2 columns x 1-2 rows (derived: reversed rows of a larger physical frame), string cells of 0..2 bytes over {comma, quote, LF, space, a, backslash, dot, 0x80, 0xC3} and null, enum/int/float/bool cells symbolic; Header on/off, Columns(order), EmptyNull on/off; real encoding/csv.Writer, bufio, bytes.Reader, fastcsv, ReadCSV, New; enum column of 3 rows with null cells in any position (EmptyNull)"
		},
		Assume:   []string{"decimal text of symbolic numbers is the injective fixed-width model (DESIGN 3.4): 'bit-identical floats' therefore rests on strconv being its own inverse (trusted)", "the reader delivers whole buffers (fragmentation is C12's)", "CR inside cells excluded by the statement"},
		Outside:  []string{"strings longer than 3 bytes, more than 2x2 cells"},
		MinReach: []string{"end"}, TVVectors: 2,
	})
}

func init() {
	register(&Property{
		ID: "C14", Dirs: []string{"root"},
		Jobs: func(tier string) []Job {
			var jobs []Job
			sl := 2
			if tier == "thorough" {
				sl = 3
			}
			jobs = append(jobs, Job{Harness: "VX_C14_tojson", Params: P("shape", "name", "namelen", "1", "n", "1", "strlen", "0"), MaxPaths: 300000})
			jobs = append(jobs, Job{Harness: "VX_C14_tojson", Params: P("shape", "name", "namelen", "2", "n", "1", "strlen", "0"), MaxPaths: 300000})
			if tier == "thorough" {
				jobs = append(jobs, Job{Harness: "VX_C14_tojson", Params: P("shape", "name", "namelen", "3", "n", "1", "strlen", "0"), MaxPaths: 300000})
			}
			jobs = append(jobs, Job{Harness: "VX_C14_tojson", Params: P("shape", "string", "namelen", "0", "n", "1", "strlen", itoa(sl)), MaxPaths: 300000})
			jobs = append(jobs, Job{Harness: "VX_C14_tojson", Params: P("shape", "string", "namelen", "0", "n", "2", "strlen", "1"), MaxPaths: 300000})
			jobs = append(jobs, Job{Harness: "VX_C14_tojson", Params: P("shape", "mixed", "namelen", "0", "n", "2", "strlen", "1"), MaxPaths: 300000})
			jobs = append(jobs, Job{Harness: "VX_C14_tojson", Params: P("shape", "empty", "namelen", "0", "n", "0", "strlen", "1")})
			jobs = append(jobs, Job{Harness: "VX_C14_tojson", Params: P("shape", "concrete", "namelen", "0", "n", "1", "strlen", "1"), MaxSteps: 50000000})
			jobs = append(jobs, Job{Harness: "VX_C14_tojson", Params: P("shape", "digits", "namelen", "0", "n", "1", "strlen", "1"), MaxSteps: 50000000})
			jobs = append(jobs, Job{Harness: "VX_C14_tojson", Params: P("shape", "ints", "namelen", "0", "n", "1", "strlen", "1"), MaxSteps: 100000000})
			jobs = append(jobs, Job{Harness: "VX_C14_tojson", Params: P("shape", "pow2", "namelen", "0", "n", "1", "strlen", "1"), MaxSteps: 100000000})
			jobs = append(jobs, Job{Harness: "VX_C14_aggregated"})
			jobs = append(jobs, Job{Harness: "VX_C14_tojson", Params: P("shape", "big", "namelen", "0", "n", "1", "strlen", "1"), MaxSteps: 400000000})
			jobs = append(jobs, c14rowCountJobs(tier)...)
			// ReadJSON of what ToJSON wrote (behind the reference decoder)
			rj := []string{"int,bool", "float", "enum,float", "string", "bool,enum,int,float"}
			if tier == "thorough" {
				rj = append(rj, "string,int", "enum,string")
			}
			for _, ts := range rj {
				jobs = append(jobs, Job{Harness: "VX_C14_readjson", Params: P("types", ts, "n", "2", "strlen", "1"), MaxPaths: 300000})
			}
			jobs = append(jobs, Job{Harness: "VX_C14_readjson", Params: P("types", "int,float", "n", "1", "strlen", "1")})
			if tier == "thorough" {
				jobs = append(jobs, Job{Harness: "VX_C14_readjson", Params: P("types", "string", "n", "1", "strlen", "2"), MaxPaths: 300000})
				jobs = append(jobs, Job{Harness: "VX_C14_readjson", Params: P("types", "int,bool,float", "n", "3", "strlen", "1"), MaxPaths: 300000})
			}
			return jobs
		},
		Bounds: func(tier string) string {
			if tier == "thorough" {
				return "ToJSON on derived frames: column names of 1-3 symbolic bytes over {a, quote, backslash, 0x01, 0x7f, 0xC3, 0x80}; string cells of 0..3 bytes over {a, quote, backslash, 0x00, 0x1f, LF, 0x7f, 0x80, 0xC2, 0xE2, 0xA8, 0xA9} and null; mixed frames (int,bool,string,enum,float with NaN) of 2 rows; 0 rows; a 700-row frame (text > 8 KiB); ReadJSON(ToJSON(f)) for frames of 1-3 rows with 1-4 columns over int, bool, enum, NaN-free finite float and nullable string (cells 0..2 bytes)"
			}
			return "ToJSON on derived frames: column names of 1-2 symbolic bytes over {a, quote, backslash, 0x01, 0x7f, 0xC3, 0x80}; string cells of 0..2 bytes over {a, quote, backslash, 0x00, 0x1f, LF, 0x7f, 0x80, 0xC2, 0xE2, 0xA8, 0xA9} and null; mixed frames (int,bool,string,enum,float with NaN) of 2 rows; 0 rows; a 700-row frame (text > 8 KiB); ReadJSON(ToJSON(f)) for frames of 1-2 rows with 1-4 columns over int, bool, enum, NaN-free finite float and nullable string (cells 0..1 byte)"
		},
		Assume:   []string{"the output is read by a reference reader for the JSON subset written in the harness from RFC 8259", "number tokens of symbolic numbers are the engine's injective text model (DESIGN 3.4); the digit code is C16's", "ReadJSON: encoding/json's reflection-driven Decoder (NewDecoder, Token for delimiters, More, Decode into []map[string]interface{} or map[string]interface{}) is replaced by a reference stream reader in the harness producing what the documentation of encoding/json describes (numbers float64, null nil, last duplicate key wins; More is false on read errors, Token/Decode report them); everything after decoding (type detection from the first record, fill functions, New) is the real code; column order and enum values are declared to ReadJSON"},
		Outside:  []string{"encoding/json's decoder itself", "zero-row frames for ReadJSON (the text [] carries no columns)", "strings longer than 3 bytes", "U+2028/U+2029 (3-byte sequences over the alphabet are reachable only in the thorough tier)"},
		MinReach: []string{"end"}, TVVectors: 2,
	})
}

func init() {
	register(&Property{
		ID: "C15", Dirs: []string{"root"},
		Jobs: func(tier string) []Job {
			var jobs []Job
			docs := []string{"a,b\n1,2\n3,4\n", "a,b\n1,2\n3,4", "a,b\n\"x\",\"y\"\n\"z\",\"w\"\n", "a\n1\n2\n3\n", "a,b\n"}
			chunks := []string{"0", "1", "3"}
			if tier == "thorough" {
				docs = append(docs, "a,b\r\n1,2\r\n3,4\r\n", "a,b,c\n1,,\n,\"q\"\"r\",3\n", "a\n\"multi\nline\"\nx\n", "a,b\n1.5,true\n2.5,false\n-0,true\n", "a,b\n1,2\n3,4\n5,6\n7,8\n9,10\n11,12\n")
				chunks = []string{"0", "1", "2", "3", "5", "7"}
			}
			for _, d := range docs {
				for _, ch := range chunks {
					jobs = append(jobs, Job{Harness: "VX_C15_readcsv", Params: P("doc", d, "chunk", ch)})
				}
			}
			jobs = append(jobs, Job{Harness: "VX_C15_readcsv", Params: P("doc", "a,b\n1,2\n3,4\n", "chunk", "2", "types", "string")})
			for _, op := range []string{"tocsv", "tojson"} {
				ns := []string{"0", "1", "2"}
				if tier == "thorough" {
					ns = append(ns, "3", "4")
				}
				for _, n := range ns {
					jobs = append(jobs, Job{Harness: "VX_C15_write", Params: P("op", op, "n", n)})
				}
			}
			jobs = append(jobs, Job{Harness: "VX_C15_readjson", Params: P("chunk", "0")}, Job{Harness: "VX_C15_readjson", Params: P("chunk", "3")})
			jobs = append(jobs, Job{Harness: "VX_C15_write_big", Params: P("op", "tojson", "n", "1100"), MaxSteps: 400000000}, Job{Harness: "VX_C15_write_big", Params: P("op", "tocsv", "n", "1100"), MaxSteps: 400000000})
			if tier == "thorough" {
				for _, n := range []string{"1024", "1025", "2100", "4100"} {
					jobs = append(jobs, Job{Harness: "VX_C15_write_big", Params: P("op", "tojson", "n", n), MaxSteps: 2000000000}, Job{Harness: "VX_C15_write_big", Params: P("op", "tocsv", "n", n), MaxSteps: 2000000000})
				}
				jobs = append(jobs, Job{Harness: "VX_C15_readjson", Params: P("chunk", "1")}, Job{Harness: "VX_C15_readjson", Params: P("chunk", "7")})
			}
			jobs = append(jobs, Job{Harness: "VX_C15_sql", Params: P("what", "prepare", "at", "0")}, Job{Harness: "VX_C15_sql", Params: P("what", "query", "at", "0")})
			for at := 0; at <= 3; at++ {
				jobs = append(jobs, Job{Harness: "VX_C15_sql", Params: P("what", "next", "at", itoa(at))})
			}
			for at := 0; at <= 1; at++ {
				jobs = append(jobs, Job{Harness: "VX_C15_sql", Params: P("what", "exec", "at", itoa(at))})
			}
			return jobs
		},
		Bounds: func(tier string) string {
			if tier == "thorough" {
				return "ReadCSV: 10 documents (quoted/unquoted, CRLF, embedded line breaks and escaped quotes, empty fields, typed inference, with/without final line break, header only) x read chunk sizes {whole,1,2,3,5,7}, failure position symbolic over every byte offset 0..len, failing call with/without data, plain error or error wrapping io.EOF; ToCSV/ToJSON: frames of 0-4 rows (int + string column over {x, quote}), writer failing at its k-th call for k=0..6 with or without a short write; frames of 1024/1025/1100/2100/4100 rows with the writer failing 1-3 bytes before the end; ReadJSON: one document, every failure offset, chunks {whole,1,3,7}; SQL: see outside_claim"
			}
			return "ReadCSV: 5 documents (quoted/unquoted, with/without final line break, header only) x read chunk sizes {whole,1,3}, failure position symbolic over every byte offset 0..len, failing call with/without data, plain error or error wrapping io.EOF; ToCSV/ToJSON: frames of 0-2 rows (int + string column over {x, quote}), writer failing at its k-th call for k=0..6 with or without a short write; 1100-row frames with the writer failing 1-3 bytes before the end; ReadJSON: one document, every failure offset, chunks {whole,3}; SQL: see outside_claim"
		},
		Assume:   []string{"a reader failure is a non-EOF error returned instead of further data", "encoding/csv.Writer and bufio run for real (failures surface at Flush)"},
		Outside:  []string{"encoding/json's decoder itself (ReadJSON faults are decided behind the decoder model of C14)", "SQL faults are decided against the database/sql contract model of C19 (Prepare/Query fail, result set ending with an error after k=0..3 rows, k-th Exec failing)"},
		MinReach: []string{"end"}, TVVectors: 1,
	})
}

func init() {
	register(&Property{
		ID: "C19", Dirs: []string{"root"},
		Jobs: func(tier string) []Job {
			var jobs []Job
			n := "2"
			if tier == "thorough" {
				n = "3"
			}
			tsTo := []string{"int,string", "float,bool,enum"}
			tsRead := []string{"int", "float", "bool", "string", "int,string", "float,string,bool"}
			tsRT := []string{"int,string", "float,bool", "enum,int", "string,enum,float"}
			if tier == "thorough" {
				tsTo = append(tsTo, "string,string", "enum,float,int", "bool", "int,float,bool,string,enum")
				tsRead = append(tsRead, "string,string", "bool,int,float", "string,float", "int,float,bool,string")
				tsRT = append(tsRT, "bool,string", "int,float,bool,string,enum", "enum,enum", "float")
			}
			for _, d := range []string{"postgres", "sqlite", "mysql", "plain", "incr", "esc2", "esc3", "incr_mysql", "incr_sqlite", "incr_esc"} {
				for _, ts := range tsTo {
					table := "t"
					if d == "mysql" {
						table = "my`tab"
					}
					jobs = append(jobs, Job{Harness: "VX_C19_tosql", Params: P("types", ts, "n", n, "dialect", d, "table", table)})
				}
			}
			jobs = append(jobs, Job{Harness: "VX_C19_tosql", Params: P("types", "string", "n", "0", "dialect", "plain", "table", "t")})
			for _, ts := range tsRead {
				for _, by := range []string{"false", "true"} {
					jobs = append(jobs, Job{Harness: "VX_C19_readsql", Params: P("types", ts, "n", n, "bytes", by)})
				}
			}
			for _, ts := range tsRT {
				jobs = append(jobs, Job{Harness: "VX_C19_roundtrip", Params: P("types", ts, "n", n)})
			}
			if tier == "thorough" {
				for _, ts := range []string{"int,string", "float,bool,enum"} {
					jobs = append(jobs, Job{Harness: "VX_C19_roundtrip", Params: P("types", ts, "n", "4")})
				}
				for _, ts := range []string{"int,string", "float,bool"} {
					jobs = append(jobs, Job{Harness: "VX_C19_readsql", Params: P("types", ts, "n", "4", "bytes", "true")})
				}
			}
			jobs = append(jobs, Job{Harness: "VX_C19_sequence", Params: P("d1", "sqlite", "d2", "postgres")}, Job{Harness: "VX_C19_sequence", Params: P("d1", "incr", "d2", "plain")}, Job{Harness: "VX_C19_sequence", Params: P("d1", "mysql", "d2", "sqlite")})
			jobs = append(jobs, Job{Harness: "VX_C19_precision"}, Job{Harness: "VX_C19_precision", Params: P("coerce", "1")})
			jobs = append(jobs, Job{Harness: "VX_C19_tosql_big", Params: P("n", "600"), MaxSteps: 400000000, MaxPaths: 100000})
			return jobs
		},
		Bounds: func(tier string) string {
			return "frames of 2 (thorough 3-4) rows derived from a larger physical frame, 1-3 (thorough 1-5) columns over the five types with symbolic cells; dialects postgres/sqlite/mysql/plain/incrementing, a table name containing the escape character; result sets of the driver types int64, float64, bool, string, []byte, NULL (NULLs in text/float columns, including leading NULLs); write-then-read round trips; user-chosen escape characters outside ASCII"
		},
		Assume:   []string{"database/sql is a contract model in the engine (Tx.Prepare/Exec, Stmt.Query/Close, Rows.Next/Columns/Scan/Err): Scan passes each driver value to the destination's Scan method; Exec arguments are normalised like database/sql's default converter; natively a scripted in-memory driver behind the real database/sql is used for replay", "Precision is exercised on concrete values only; the coercion options are not exercised"},
		Outside:  []string{"real drivers' type mapping", "Coerce and Precision options", "identifier escaping rules beyond wrapping in the escape character (the code does not double embedded escape characters; the statement does not require it)"},
		MinReach: []string{"end"}, TVVectors: 2,
	})
}

func init() {
	register(&Property{
		ID: "C16", Dirs: []string{"internal/ryu"},
		Jobs: func(tier string) []Job {
			jobs := []Job{{Harness: "VX_C16_special"}}
			e2s := []int{0, 1, 3, 10, 20}
			es := []int{0, -1, -17}
			if tier == "thorough" {
				e2s = nil
				for k := 0; k <= 52; k++ {
					e2s = append(e2s, k)
				}
				es = nil
				for k := -40; k <= 25; k++ {
					es = append(es, k)
				}
				es = append(es, -343, -324, -100, 100, 292, 308)
			}
			for _, k := range e2s {
				jobs = append(jobs, Job{Harness: "VX_C16_exactint", Params: P("e2", itoa(k))})
			}
			for _, e := range es {
				for _, bs := range [][2]int{{0, 0}, {3, 0}, {0, 40}, {3, 5}} {
					if tier != "thorough" && bs != [2]int{3, 5} && bs != [2]int{0, 0} {
						continue
					}
					jobs = append(jobs, Job{Harness: "VX_C16_layout", Params: P("e", itoa(e), "n0", itoa(bs[0]), "spare", itoa(bs[1]))})
				}
			}
			return jobs
		},
		Bounds: func(tier string) string {
			return "special values (+-0, +-Inf) over all their bit patterns with a symbolic 3-byte buffer prefix; exact-integer path for all 2^52 mantissas at binary exponents {0,1,3,10,20} (thorough: 0..52); positional layout dec64.appendF for every m in [1,10^17), both signs, decimal exponents {-17,-1,0} (thorough: -40..25 and -343,-324,-100,100,292,308), destination buffers of length 0/3 with spare capacity 0/5/40 and arbitrary prior content (including the spare capacity)"
		},
		Assume:   []string{"PARTIAL: the shortest-digit search float64ToDecimal (the core of the property: fewest digits, round trip) is NOT decided: its 64x128-bit multiplications and chained divisions are out of reach of the installed solvers (DESIGN 8.1)", "digit extraction (%10, /10 chains) is compared as identical terms: the check decides placement of sign, digits, zeros and the decimal point, and buffer handling"},
		Outside:  []string{"float64ToDecimal (shortest representation, correct rounding)", "NaN (excluded by the statement)"},
		MinReach: []string{"end", "exact"}, TVVectors: 3, Level: "model_checking",
	})
}
