package main

// Property registry. Each property lists its harness dirs and the job table
// (harness instances = program skeletons with concrete sizes).

func init() {
	register(&Property{
		ID:   "DEV",
		Dirs: []string{"root", "internal/strings"},
		Jobs: func(tier string) []Job {
			return []Job{{Harness: "VX_dev_or_isnull"}, {Harness: "VX_C08_pointer"}}
		},
		Bounds:    func(string) string { return "dev" },
		TVVectors: 4,
	})
}
