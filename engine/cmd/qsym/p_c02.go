package main

import "strconv"

type c02leafSpec struct{ typ, cmp, arg, btyp string }

func c02Leaves() []c02leafSpec {
	var ls []c02leafSpec
	cmps := []string{"<", "<=", ">", ">=", "=", "!="}
	for _, c := range cmps {
		ls = append(ls, c02leafSpec{"int", c, "const", ""}, c02leafSpec{"int", c, "fconst", ""}, c02leafSpec{"int", c, "col", ""}, c02leafSpec{"int", c, "col", "float"})
		ls = append(ls, c02leafSpec{"float", c, "const", ""}, c02leafSpec{"float", c, "col", ""}, c02leafSpec{"float", c, "col", "int"})
		ls = append(ls, c02leafSpec{"string", c, "const", ""}, c02leafSpec{"string", c, "col", ""})
		ls = append(ls, c02leafSpec{"enum", c, "const", ""}, c02leafSpec{"enum", c, "col", ""})
	}
	for _, c := range []string{"=", "!="} {
		ls = append(ls, c02leafSpec{"bool", c, "const", ""}, c02leafSpec{"bool", c, "col", ""})
	}
	for _, t := range []string{"int", "float", "string", "enum"} {
		ls = append(ls, c02leafSpec{t, "isnull", "none", ""}, c02leafSpec{t, "isnotnull", "none", ""})
	}
	ls = append(ls, c02leafSpec{"int", "in", "list", ""}, c02leafSpec{"string", "in", "list", ""}, c02leafSpec{"string", "in", "ilist", ""}, c02leafSpec{"enum", "in", "list", ""})
	ls = append(ls, c02leafSpec{"int", "any_bits", "const", ""}, c02leafSpec{"int", "all_bits", "const", ""})
	for _, t := range []string{"int", "float", "bool", "string", "enum"} {
		ls = append(ls, c02leafSpec{t, "fn1", "none", ""}, c02leafSpec{t, "fn2", "col", ""})
	}
	// like/ilike kernels inside clause contexts (pattern semantics themselves: C18)
	// arguments that every non-null cell satisfies (nulls still never match)
	ls = append(ls, c02leafSpec{"enum", "in", "all", ""}, c02leafSpec{"enum", "like", "all", ""}, c02leafSpec{"enum", "ilike", "all", ""}, c02leafSpec{"string", "like", "all", ""})
	ls = append(ls, c02leafSpec{"string", "like", "pat", ""}, c02leafSpec{"string", "ilike", "pat", ""}, c02leafSpec{"enum", "like", "pat", ""}, c02leafSpec{"enum", "ilike", "pat", ""})
	return ls
}

func init() {
	register(&Property{
		ID:   "C02",
		Dirs: []string{"root", "internal/strings"},
		Jobs: func(tier string) []Job {
			ctxs := []string{"leaf", "not", "inv", "or", "or_rev", "and", "not_or", "or_inv", "or_notl", "or_notinv"}
			n, pP, sn, sP, strlen := 2, 3, 2, 2, 1
			if tier == "thorough" {
				ctxs = []string{"leaf", "not", "inv", "notnot", "not_and1", "and", "and_rev", "or", "or_rev", "or_notl", "or_notk", "not_or", "and_or", "or_and", "or3", "or_inv", "or_inv_first", "and_inv", "or_notinv", "and_notinv"}
				n, pP, sn, sP, strlen = 3, 4, 2, 3, 2
			}
			var jobs []Job
			for _, l := range c02Leaves() {
				for _, c := range ctxs {
					nn, pp := n, pP
					if l.typ == "string" || l.typ == "enum" {
						nn, pp = sn, sP
					}
					p := P("typ", l.typ, "cmp", l.cmp, "arg", l.arg, "ctx", c, "n", strconv.Itoa(nn), "P", strconv.Itoa(pp), "strlen", strconv.Itoa(strlen))
					if l.typ == "enum" {
						p["ev"] = "2"
						if tier == "thorough" {
							p["ev"] = "3"
						}
					}
					if l.btyp != "" {
						p["btyp"] = l.btyp
					}
					jobs = append(jobs, Job{Harness: "VX_C02_leaf", Params: p})
				}
			}
			// full-length (n == P) permuted indexes: nothing removed, order changed
			for _, l := range c02Leaves() {
				for _, c := range []string{"leaf", "or_rev"} {
					p := P("typ", l.typ, "cmp", l.cmp, "arg", l.arg, "ctx", c, "n", "2", "P", "2", "strlen", "1")
					if l.typ == "enum" {
						p["ev"] = "2"
					}
					if l.btyp != "" {
						p["btyp"] = l.btyp
					}
					jobs = append(jobs, Job{Harness: "VX_C02_leaf", Params: p})
				}
			}
			// like/ilike as Filter comparators: state carried between calls (the semantics of patterns is C18's)
			jobs = append(jobs, c18seqJobs()...)
			return jobs
		},
		Bounds: func(tier string) string {
			if tier == "thorough" {
				return "rows n=3 of P=4 physical (string/enum: n=2,P=3, cells <=2 bytes), value lists of 2, 20 clause contexts per leaf kernel, plus full-length permuted frames (n=P=2) in 2 contexts; all cell values, index contents and constants symbolic"
			}
			return "rows n=2 of P=3 physical (string/enum: n=2,P=2, cells <=1 byte), value lists of 2, 10 clause contexts per leaf kernel, plus full-length permuted frames (n=P=2) in 2 contexts; all cell values, index contents and constants symbolic"
		},
		Assume: []string{
			"frames are built as New(data).withIndex(ix) with ix an arbitrary injective sequence of positions (DESIGN 3.2)",
			"float constant against an int column is truncated (documented in code); NaN constant excluded (documented error)",
			"user predicates are uninterpreted functions (any predicate)",
			"like/ilike are decided under C18",
		},
		Outside:   []string{"n > 3 rows, clause trees deeper than 3 levels, value lists longer than 2, strings longer than 2 bytes", "like/ilike semantics (C18)", "ordering comparisons of derived (undeclared) enums"},
		MinReach:  []string{"end"},
		TVVectors: 3,
	})
}
