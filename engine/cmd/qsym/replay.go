package main

import (
	"bytes"
	"encoding/json"
	"flag"
	"fmt"
	"math/rand"
	"os"
	"os/exec"
	"path/filepath"
	"regexp"
	"sort"
	"strconv"
	"strings"
	"time"

	"verif/engine/sx"
)

func execOutput(name string, args ...string) (string, error) {
	out, err := exec.Command(name, args...).CombinedOutput()
	return string(out), err
}

var pkgClauseRe = regexp.MustCompile(`(?m)^package (\w+)`)

// replayer owns the natively compiled harness packages (go test -c -overlay).
type replayer struct {
	tmp  string
	bins map[string]string // harness dir -> test binary
	ld   *Loaded
	hashModel bool
}

type replayRec struct {
	Harness string            `json:"harness"`
	Params  map[string]string `json:"params"`
	Inputs  []uint64          `json:"inputs"`
	Kinds   []string          `json:"kinds"`
	UF      []sx.UFEntry      `json:"uf"`
	Label   string            `json:"label"`
}

func newReplayer(ld *Loaded, prop *Property) (*replayer, error) {
	tmp, err := os.MkdirTemp("", "qsym-replay-")
	if err != nil {
		return nil, err
	}
	rp := &replayer{tmp: tmp, bins: map[string]string{}, ld: ld}
	replace := map[string]string{}
	replace[filepath.Join(repoDir, "internal", "vx", "vx.go")] = filepath.Join(verifDir, "vx", "vx.go")
	replace[filepath.Join(repoDir, "internal", "hash", "memhash.go")] = filepath.Join(verifDir, "vx", "memhash_replay.go.txt")
	replace[filepath.Join(repoDir, "internal", "vxsql", "vxsql.go")] = filepath.Join(verifDir, "vxsql", "vxsql.go")
	for _, d := range prop.Dirs {
		files, _ := filepath.Glob(filepath.Join(verifDir, "harness", d, "*.go"))
		sort.Strings(files)
		pkgName := ""
		var names []string
		for _, f := range files {
			b, _ := os.ReadFile(f)
			base := filepath.Base(f)
			replace[filepath.Join(repoDir, harnessPkgDir(d), "zz_vx_"+base)] = f
			if m := pkgClauseRe.FindSubmatch(b); m != nil && !strings.HasSuffix(base, "_test.go") {
				pkgName = string(m[1])
			}
			if strings.HasSuffix(base, "_test.go") {
				continue
			}
			for _, m := range harnessFuncRe.FindAllSubmatch(b, -1) {
				names = append(names, string(m[1]))
			}
		}
		var sb strings.Builder
		fmt.Fprintf(&sb, "package %s\n\nimport (\n\t\"fmt\"\n\t\"strings\"\n\t\"testing\"\n\n\t\"github.com/tobgu/qframe/internal/vx\"\n)\n\n", pkgName)
		sb.WriteString("var vxRegistry = map[string]func(){\n")
		for _, n := range names {
			fmt.Fprintf(&sb, "\t%q: %s,\n", n, n)
		}
		sb.WriteString("}\n\n")
		sb.WriteString(`func vxRunOne() (out string) {
	defer func() {
		r := recover()
		switch x := r.(type) {
		case nil:
		case vx.AssumeFailed:
			out = "assume-failed"
		case vx.CheckFailed:
			out = "check-failed " + x.Label
		default:
			out = fmt.Sprintf("panic %q", fmt.Sprint(r))
		}
		out += " |obs| " + strings.Join(vx.Observed, " ;; ")
	}()
	fn := vxRegistry[vx.HarnessName()]
	if fn == nil {
		return "no-such-harness " + vx.HarnessName()
	}
	fn()
	return "pass"
}

func TestVX(t *testing.T) {
	n := vx.LoadBatch()
	for i := 0; i < n; i++ {
		vx.Select(i)
		fmt.Printf("VX-RESULT %d %s\n", i, strings.ReplaceAll(vxRunOne(), "\n", "\\n"))
	}
}
`)
		drv := filepath.Join(tmp, strings.ReplaceAll(d, "/", "_")+"_driver_test.go")
		if err := os.WriteFile(drv, []byte(sb.String()), 0o644); err != nil {
			return nil, err
		}
		replace[filepath.Join(repoDir, harnessPkgDir(d), "zz_vx_driver_test.go")] = drv
	}
	ovb, _ := json.Marshal(map[string]interface{}{"Replace": replace})
	ovPath := filepath.Join(tmp, "overlay.json")
	os.WriteFile(ovPath, ovb, 0o644)
	for _, d := range prop.Dirs {
		bin := filepath.Join(tmp, strings.ReplaceAll(d, "/", "_")+".test")
		cmd := exec.Command("go", "test", "-c", "-vet=off", "-overlay", ovPath, "-o", bin, importPath(d))
		cmd.Dir = repoDir
		cmd.Env = append(os.Environ(), "GOFLAGS=-mod=mod", "GOPROXY=off", "GOSUMDB=off", "GOTOOLCHAIN=local")
		out, err := cmd.CombinedOutput()
		if err != nil {
			os.RemoveAll(tmp)
			return nil, fmt.Errorf("go test -c %s: %v\n%s", importPath(d), err, out)
		}
		rp.bins[d] = bin
	}
	return rp, nil
}

func (rp *replayer) Close() { os.RemoveAll(rp.tmp) }

// runBatch executes records (all from harness dir d) natively; returns one outcome per record.
func (rp *replayer) runBatch(d string, recs []replayRec) []string {
	outs := make([]string, len(recs))
	for k := range outs {
		outs[k] = "not-run"
	}
	if len(recs) == 0 {
		return outs
	}
	b, _ := json.Marshal(recs)
	bp := filepath.Join(rp.tmp, fmt.Sprintf("batch-%d.json", time.Now().UnixNano()))
	os.WriteFile(bp, b, 0o644)
	defer os.Remove(bp)
	to := "300s"
	if len(recs) == 1 {
		to = "90s"
	}
	cmd := exec.Command(rp.bins[d], "-test.run", "^TestVX$", "-test.timeout", to)
	cmd.Env = append(os.Environ(), "VX_BATCH="+bp)
	cmd.Dir = filepath.Join(repoDir, harnessPkgDir(d))
	var buf bytes.Buffer
	cmd.Stdout = &buf
	cmd.Stderr = &buf
	cmd.Run()
	for _, l := range strings.Split(buf.String(), "\n") {
		if !strings.HasPrefix(l, "VX-RESULT ") {
			continue
		}
		rest := l[len("VX-RESULT "):]
		ix, o, _ := strings.Cut(rest, " ")
		if k, err := strconv.Atoi(ix); err == nil && k < len(outs) {
			outs[k] = o
		}
	}
	// a hard crash (fatal error, timeout) loses the remaining records: rerun them one by one
	for k := range outs {
		if outs[k] == "not-run" && len(recs) > 1 {
			outs[k] = rp.runBatch(d, recs[k:k+1])[0]
			if outs[k] == "not-run" {
				outs[k] = "panic \"native process crashed or timed out\""
			}
		}
	}
	return outs
}

func recOf(v sx.Violation) replayRec {
	return replayRec{Harness: v.Harness, Params: v.Params, Inputs: v.Inputs, Kinds: v.Kinds, UF: v.UF, Label: v.Label}
}

// Run replays violation candidates natively.
func (rp *replayer) Run(vs []sx.Violation) []string {
	outs := make([]string, len(vs))
	byDir := map[string][]int{}
	for k, v := range vs {
		d := rp.ld.HarnessPkg[v.Harness]
		byDir[d] = append(byDir[d], k)
	}
	for d, ks := range byDir {
		var recs []replayRec
		var idx []int
		for _, k := range ks {
			if vs[k].Kind == "budget" {
				// possible non-termination: replay alone, with the short time-out
				o := rp.runBatch(d, []replayRec{recOf(vs[k])})
				out, _, _ := strings.Cut(o[0], " |obs| ")
				if out == "not-run" {
					out = "panic \"native run did not terminate within 90s\""
				}
				outs[k] = out
				continue
			}
			recs = append(recs, recOf(vs[k]))
			idx = append(idx, k)
		}
		o := rp.runBatch(d, recs)
		for j, k := range idx {
			out, _, _ := strings.Cut(o[j], " |obs| ")
			outs[k] = out
		}
	}
	return outs
}

// translationValidate runs random concrete vectors through the engine
// (concrete mode) and through the natively compiled harness and compares
// outcome and observations.
func translationValidate(ld *Loaded, prop *Property, jobs []Job, rp *replayer, seed int64, timeoutMs int) (runs, disagree int, notes []string) {
	n := prop.TVVectors
	if n == 0 || len(jobs) == 0 {
		return
	}
	r := rand.New(rand.NewSource(seed + 1))
	sol := newSolver("", timeoutMs)
	defer sol.Close()
	eng := sx.NewEngine(ld.Prog, ld.Sizes, sol, initAllowed)
	for _, d := range prop.Dirs {
		eng.InitPackage(ld.Pkgs[importPath(d)])
	}
	// sample up to 24 jobs
	step := len(jobs)/24 + 1
	type item struct {
		rec replayRec
		eng string
	}
	byDir := map[string][]item{}
	for k := 0; k < len(jobs); k += step {
		j := jobs[k]
		if j.ExpectSat {
			continue
		}
		fn := ld.Harness[j.Harness]
		// discover the input kinds with one all-zero run
		probe := eng.RunConcrete(fn, j.Harness, j.Params, nil, nil, sx.Limits{MaxPaths: 1, MaxSteps: 5000000, MaxFan: 1})
		kinds := probe.InputKinds
		for t := 0; t < n; t++ {
			vec := randomVector(r, kinds)
			res := eng.RunConcrete(fn, j.Harness, j.Params, vec, nil, sx.Limits{MaxPaths: 1, MaxSteps: 5000000, MaxFan: 1})
			if len(res.InputKinds) > len(kinds) {
				kinds = res.InputKinds
			}
			byDir[ld.HarnessPkg[j.Harness]] = append(byDir[ld.HarnessPkg[j.Harness]], item{rec: replayRec{Harness: j.Harness, Params: j.Params, Inputs: vec, Kinds: kinds}, eng: res.ConcreteOutcome})
		}
	}
	for d, items := range byDir {
		var recs []replayRec
		for _, it := range items {
			recs = append(recs, it.rec)
		}
		outs := rp.runBatch(d, recs)
		for k, it := range items {
			runs++
			if normOutcome(outs[k]) != normOutcome(it.eng) {
				disagree++
				if len(notes) < 5 {
					notes = append(notes, fmt.Sprintf("DISAGREE %s%v inputs=%v engine=%q native=%q", it.rec.Harness, it.rec.Params, it.rec.Inputs, it.eng, outs[k]))
				}
			}
		}
	}
	return
}

// normOutcome drops panic texts (host and target runtimes word them differently).
func normOutcome(s string) string {
	head, obs, _ := strings.Cut(s, " |obs| ")
	if strings.HasPrefix(head, "panic") {
		head = "panic"
	}
	return head + " |obs| " + obs
}

func cmdReplay(args []string) int {
	fs := flag.NewFlagSet("replay", flag.ExitOnError)
	fs.Parse(args)
	if fs.NArg() != 1 {
		fmt.Fprintln(os.Stderr, "usage: qsym replay <replay.json>")
		return 2
	}
	b, err := os.ReadFile(fs.Arg(0))
	if err != nil {
		fmt.Fprintln(os.Stderr, err)
		return 2
	}
	var v sx.Violation
	if err := json.Unmarshal(b, &v); err != nil {
		fmt.Fprintln(os.Stderr, err)
		return 2
	}
	var prop *Property
	for _, p := range registry {
		for _, d := range p.Dirs {
			files, _ := filepath.Glob(filepath.Join(verifDir, "harness", d, "*.go"))
			for _, f := range files {
				src, _ := os.ReadFile(f)
				if bytes.Contains(src, []byte("func "+v.Harness+"()")) {
					prop = p
				}
			}
		}
	}
	if prop == nil {
		fmt.Fprintln(os.Stderr, "harness not found:", v.Harness)
		return 2
	}
	ld, err := load(prop.Dirs)
	if err != nil {
		fmt.Fprintln(os.Stderr, err)
		return 2
	}
	rp, err := newReplayer(ld, prop)
	if err != nil {
		fmt.Fprintln(os.Stderr, err)
		return 2
	}
	defer rp.Close()
	out := rp.Run([]sx.Violation{v})
	fmt.Printf("native replay of %s%v label=%q: %s\n", v.Harness, v.Params, v.Label, out[0])
	if strings.HasPrefix(out[0], "check-failed") || strings.HasPrefix(out[0], "panic") {
		return 1
	}
	return 0
}
