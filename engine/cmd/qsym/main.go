// qsym: bounded symbolic execution of tobgu/qframe harnesses, decided by SMT.
package main

import (
	"encoding/json"
	"flag"
	"fmt"
	"os"
	"sort"
	"strings"
	"time"

	"verif/engine/smt"
	"verif/engine/sx"
)

func main() {
	if len(os.Args) < 2 {
		fmt.Fprintln(os.Stderr, "usage: qsym run|check|replay ...")
		os.Exit(2)
	}
	switch os.Args[1] {
	case "run":
		cmdRun(os.Args[2:])
	case "check":
		os.Exit(cmdCheck(os.Args[2:]))
	case "replay":
		os.Exit(cmdReplay(os.Args[2:]))
	default:
		fmt.Fprintln(os.Stderr, "unknown command", os.Args[1])
		os.Exit(2)
	}
}

type paramFlags map[string]string

func (p paramFlags) String() string { return fmt.Sprint(map[string]string(p)) }
func (p paramFlags) Set(s string) error {
	k, v, ok := strings.Cut(s, "=")
	if !ok {
		return fmt.Errorf("want k=v")
	}
	p[k] = v
	return nil
}

func newSolver(logPath string, timeoutMs int) *smt.Solver {
	var argv []string
	if sv := os.Getenv("QSYM_SOLVER"); sv != "" {
		argv = strings.Fields(sv)
	}
	sol, err := smt.NewSolver(timeoutMs, argv...)
	if err != nil {
		fmt.Fprintln(os.Stderr, "cannot start solver:", err)
		os.Exit(2)
	}
	if logPath != "" {
		f, err := os.Create(logPath)
		if err == nil {
			sol.Log = f
		}
	}
	return sol
}

// cmdRun: developer entry point, one harness instance.
func cmdRun(args []string) {
	fs := flag.NewFlagSet("run", flag.ExitOnError)
	dir := fs.String("dir", "root", "harness dir under /verif/harness")
	name := fs.String("harness", "", "harness function")
	maxPaths := fs.Int("max-paths", 100000, "")
	maxSteps := fs.Int64("max-steps", 2000000, "")
	smtlog := fs.String("smtlog", "", "solver transcript")
	timeout := fs.Int("timeout-ms", 20000, "per-query solver timeout")
	params := paramFlags{}
	fs.Var(params, "p", "param k=v")
	fs.Parse(args)
	t0 := time.Now()
	ld, err := load([]string{*dir})
	if err != nil {
		fmt.Fprintln(os.Stderr, err)
		os.Exit(2)
	}
	fmt.Fprintf(os.Stderr, "loaded in %.1fs\n", time.Since(t0).Seconds())
	fn := ld.Harness[*name]
	if fn == nil {
		var ns []string
		for n := range ld.Harness {
			ns = append(ns, n)
		}
		sort.Strings(ns)
		fmt.Fprintln(os.Stderr, "no such harness; have:", ns)
		os.Exit(2)
	}
	sol := newSolver(*smtlog, *timeout)
	defer sol.Close()
	eng := sx.NewEngine(ld.Prog, ld.Sizes, sol, initAllowed)
	if err := eng.InitPackage(fn.Pkg); err != nil {
		fmt.Fprintln(os.Stderr, err)
		os.Exit(2)
	}
	res := eng.Run(fn, *name, params, sx.Limits{MaxPaths: *maxPaths, MaxSteps: *maxSteps, MaxFan: 64})
	printResult(res)
}

func printResult(res *sx.JobResult) {
	fmt.Printf("harness=%s params=%v paths=%d dead=%d steps=%d checks=%d discharged=%d trivial=%d forks=%d conc=%d queries=%d solver=%.2fs wall=%.2fs\n",
		res.Harness, res.Params, res.Paths, res.DeadPaths, res.Steps, res.Checks, res.Discharged, res.Trivial, res.Forks, res.Concretized, res.Queries, res.SolverTime.Seconds(), res.Wall.Seconds())
	fmt.Printf("  reached=%v expectedPanics=%d\n", res.Reached, res.ExpectedPanic)
	for _, s := range dedup(res.Inconclusive) {
		fmt.Println("  INCONCLUSIVE:", s)
	}
	for k, n := range res.FrozenWrites {
		fmt.Printf("  frozen-write x%d: %s\n", n, k)
	}
	for k, n := range res.GlobalWrites {
		fmt.Printf("  global-write x%d: %s\n", n, k)
	}
	for _, v := range res.Violations {
		b, _ := json.Marshal(v)
		fmt.Println("  VIOLATION-CANDIDATE:", string(b))
	}
}

func dedup(xs []string) []string {
	seen := map[string]int{}
	var out []string
	for _, x := range xs {
		if seen[x] == 0 {
			out = append(out, x)
		}
		seen[x]++
	}
	for k, x := range out {
		if seen[x] > 1 {
			out[k] = fmt.Sprintf("%s (x%d)", x, seen[x])
		}
	}
	return out
}
