package main

import (
	"fmt"
	"go/types"
	"os"
	"path/filepath"
	"regexp"
	"sort"
	"strings"

	"golang.org/x/tools/go/packages"
	"golang.org/x/tools/go/ssa"
	"golang.org/x/tools/go/ssa/ssautil"
)

const modPath = "github.com/tobgu/qframe"

var repoDir = envOr("VX_REPO", "/repo")
var verifDir = envOr("VX_VERIF", "/verif")

func envOr(k, d string) string {
	if v := os.Getenv(k); v != "" {
		return v
	}
	return d
}

// harnessDirs maps a directory under /verif/harness to a package dir in /repo.
func harnessPkgDir(h string) string {
	if h == "root" {
		return ""
	}
	return h
}

type Loaded struct {
	Prog     *ssa.Program
	Pkgs     map[string]*ssa.Package // by import path
	Sizes    types.Sizes
	Overlay  map[string][]byte // virtual path -> content
	Harness  map[string]*ssa.Function
	HarnessPkg map[string]string // harness name -> harness dir (e.g. "root", "internal/fastcsv")
	LoadSecs float64
}

var harnessFuncRe = regexp.MustCompile(`(?m)^func (VX_\w+)\(\)`)

// buildOverlay collects harness sources for the given harness dirs.
func buildOverlay(dirs []string) (map[string][]byte, map[string][]string, error) {
	ov := map[string][]byte{}
	names := map[string][]string{}
	vxsrc, err := os.ReadFile(filepath.Join(verifDir, "vx", "vx.go"))
	if err != nil {
		return nil, nil, err
	}
	ov[filepath.Join(repoDir, "internal", "vx", "vx.go")] = vxsrc
	if b, err := os.ReadFile(filepath.Join(verifDir, "vxsql", "vxsql.go")); err == nil {
		ov[filepath.Join(repoDir, "internal", "vxsql", "vxsql.go")] = b
	}
	for _, d := range dirs {
		files, _ := filepath.Glob(filepath.Join(verifDir, "harness", d, "*.go"))
		sort.Strings(files)
		for _, f := range files {
			b, err := os.ReadFile(f)
			if err != nil {
				return nil, nil, err
			}
			base := filepath.Base(f)
			ov[filepath.Join(repoDir, harnessPkgDir(d), "zz_vx_"+base)] = b
			if strings.HasSuffix(base, "_test.go") {
				continue
			}
			for _, m := range harnessFuncRe.FindAllSubmatch(b, -1) {
				names[d] = append(names[d], string(m[1]))
			}
		}
	}
	return ov, names, nil
}

func importPath(d string) string {
	if d == "root" {
		return modPath
	}
	return modPath + "/" + d
}

func load(dirs []string) (*Loaded, error) {
	ov, names, err := buildOverlay(dirs)
	if err != nil {
		return nil, err
	}
	// drop _test files from the engine's view
	ovEng := map[string][]byte{}
	for k, v := range ov {
		if !strings.HasSuffix(k, "_test.go") {
			ovEng[k] = v
		}
	}
	cfg := &packages.Config{
		Mode: packages.NeedName | packages.NeedFiles | packages.NeedCompiledGoFiles | packages.NeedImports |
			packages.NeedDeps | packages.NeedTypes | packages.NeedSyntax | packages.NeedTypesInfo | packages.NeedTypesSizes | packages.NeedModule,
		Dir:     repoDir,
		Overlay: ovEng,
		Env:     append(os.Environ(), "GOFLAGS=-mod=mod", "GOPROXY=off", "GOSUMDB=off", "GOTOOLCHAIN=local"),
	}
	var pats []string
	for _, d := range dirs {
		pats = append(pats, importPath(d))
	}
	pats = append(pats, modPath+"/internal/vx")
	pkgs, err := packages.Load(cfg, pats...)
	if err != nil {
		return nil, err
	}
	nerr := 0
	packages.Visit(pkgs, nil, func(p *packages.Package) {
		for _, e := range p.Errors {
			if nerr < 20 {
				fmt.Fprintf(os.Stderr, "load error: %s: %v\n", p.PkgPath, e)
			}
			nerr++
		}
	})
	if nerr > 0 {
		return nil, fmt.Errorf("%d package load errors (does /repo build?)", nerr)
	}
	prog, _ := ssautil.AllPackages(pkgs, ssa.InstantiateGenerics)
	prog.Build()
	ld := &Loaded{Prog: prog, Pkgs: map[string]*ssa.Package{}, Overlay: ov, Harness: map[string]*ssa.Function{}, HarnessPkg: map[string]string{}}
	for _, p := range prog.AllPackages() {
		ld.Pkgs[p.Pkg.Path()] = p
	}
	ld.Sizes = types.SizesFor("gc", "amd64")
	for _, d := range dirs {
		sp := ld.Pkgs[importPath(d)]
		if sp == nil {
			return nil, fmt.Errorf("package %s not loaded", importPath(d))
		}
		for _, n := range names[d] {
			f := sp.Func(n)
			if f == nil {
				return nil, fmt.Errorf("harness %s not found in %s", n, importPath(d))
			}
			ld.Harness[n] = f
			ld.HarnessPkg[n] = d
		}
	}
	return ld, nil
}

// initAllowed decides which package initialisers the engine executes.
func initAllowed(path string) bool {
	if strings.HasPrefix(path, modPath) {
		return true
	}
	switch path {
	case "errors", "io", "unicode/utf8", "strconv", "strings", "bytes", "bufio", "encoding/csv", "sort", "math", "math/bits", "internal/bytealg":
		return true
	}
	return false
}
