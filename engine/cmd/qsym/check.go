package main

import (
	"crypto/sha1"
	"encoding/json"
	"flag"
	"fmt"
	"math/rand"
	"os"
	"path/filepath"
	"runtime"
	"sort"
	"strconv"
	"strings"
	"sync"
	"time"

	"verif/engine/sx"
)

// Job is one harness instance.
type Job struct {
	Harness  string
	Params   map[string]string
	MaxPaths int
	MaxSteps int64
	Note     string
	// ExpectSat marks a deliberately false twin: the job must yield a violation.
	ExpectSat bool
}

// Property describes how one property is checked.
type Property struct {
	ID        string
	Dirs      []string // harness dirs
	Jobs      func(tier string) []Job
	Level     string // evidence level
	Bounds    func(tier string) string
	Assume    []string
	Outside   []string
	MinReach  []string // labels that must be reachable in at least one job
	TVVectors int      // concrete twin vectors per sampled job
	Solver    string   // solver command line (default: z3 -in)
}

var registry = map[string]*Property{}

func register(p *Property) { registry[p.ID] = p }

func P(kv ...string) map[string]string {
	m := map[string]string{}
	for i := 0; i+1 < len(kv); i += 2 {
		m[kv[i]] = kv[i+1]
	}
	return m
}

type knownFinding struct {
	Property    string `json:"property"`
	Status      string `json:"status"` // open | fixed
	Tag         string `json:"tag"`    // matches a path tag "kf:<tag>" set by the harness
	Harness     string `json:"harness,omitempty"`
	Label       string `json:"label,omitempty"`
	Commit      string `json:"commit,omitempty"`
	Description string `json:"description"`
}

func loadKnown() []knownFinding {
	b, err := os.ReadFile(filepath.Join(verifDir, "known_findings.json"))
	if err != nil {
		return nil
	}
	var f struct {
		Findings []knownFinding `json:"findings"`
	}
	if json.Unmarshal(b, &f) != nil {
		return nil
	}
	return f.Findings
}

type confirmed struct {
	V       sx.Violation
	Native  string // outcome line
	Path    string
	Known   *knownFinding
	Engine  string
}

func cmdCheck(args []string) int {
	fs := flag.NewFlagSet("check", flag.ExitOnError)
	pid := fs.String("property", "", "property id")
	tier := fs.String("tier", envOr("VERIF_TIER", "quick"), "quick|thorough")
	workers := fs.Int("workers", runtime.NumCPU(), "")
	timeout := fs.Int("timeout-ms", 30000, "per-query solver timeout")
	only := fs.String("only", "", "substring filter on harness name / params (dev)")
	noReplay := fs.Bool("no-replay", false, "skip native replay (dev)")
	budget := fs.Duration("budget", 0, "wall-clock budget for exploration (0 = tier default)")
	verbose := fs.Bool("v", false, "")
	fs.Parse(args)
	prop := registry[*pid]
	if prop == nil {
		fmt.Fprintln(os.Stderr, "unknown property", *pid)
		return 2
	}
	seed, _ := strconv.ParseInt(os.Getenv("VERIF_SEED"), 10, 64)
	t0 := time.Now()
	ld, err := load(prop.Dirs)
	if err != nil {
		fmt.Println("ERROR: cannot load /repo with harness overlay:", err)
		writeEvidenceFailure(prop, *tier, seed, time.Since(t0), "load failed: "+err.Error())
		return 2
	}
	loadSecs := time.Since(t0).Seconds()
	jobs := prop.Jobs(*tier)
	if *only != "" {
		var fj []Job
		for _, j := range jobs {
			if strings.Contains(j.Harness+" "+fmt.Sprint(j.Params), *only) {
				fj = append(fj, j)
			}
		}
		jobs = fj
	}
	for _, j := range jobs {
		if ld.Harness[j.Harness] == nil {
			fmt.Println("ERROR: harness not found:", j.Harness)
			return 2
		}
	}
	// wall-clock budget: when it is used up the remaining paths/jobs are reported INCONCLUSIVE
	// (never as success); a change to /repo that makes exploration explode cannot hang the check
	if *budget == 0 {
		*budget = 25 * time.Minute
		if *tier == "thorough" {
			*budget = 80 * time.Minute
		}
	}
	deadline := t0.Add(*budget)
	if prop.Solver != "" && os.Getenv("QSYM_SOLVER") == "" {
		if _, err := execOutput(strings.Fields(prop.Solver)[0], "--version"); err == nil {
			os.Setenv("QSYM_SOLVER", prop.Solver)
		}
	}
	results := runJobs(ld, prop, jobs, *workers, *timeout, deadline, *verbose)

	// ---- triage ----------------------------------------------------------------
	known := loadKnown()
	var cands []sx.Violation
	expectSatOK := map[int]bool{}
	for k, r := range results {
		if jobs[k].ExpectSat {
			if len(r.Violations) > 0 {
				expectSatOK[k] = true
			}
			continue
		}
		cands = append(cands, r.Violations...)
	}
	var conf []confirmed
	unconfirmed := 0
	tvRuns, tvDisagree := 0, 0
	var tvNotes []string
	if !*noReplay {
		rp, err := newReplayer(ld, prop)
		if err != nil {
			fmt.Println("ERROR: cannot build native replay binaries:", err)
			writeEvidenceFailure(prop, *tier, seed, time.Since(t0), "native build failed: "+err.Error())
			return 2
		}
		defer rp.Close()
		if len(cands) > 0 {
			outs := rp.Run(cands)
			var mon *sx.Engine
			for k, v := range cands {
				o := outs[k]
				if strings.HasPrefix(v.Label, "monitor:") && !strings.HasPrefix(o, "check-failed") && !strings.HasPrefix(o, "panic") {
					// obligations about the engine's write monitor cannot fail natively (the
					// monitor only exists in the engine): they are confirmed by replaying the
					// model through the engine in concrete mode instead
					if mon == nil {
						sol := newSolver("", *timeout)
						defer sol.Close()
						mon = sx.NewEngine(ld.Prog, ld.Sizes, sol, initAllowed)
						for _, d := range prop.Dirs {
							mon.InitPackage(ld.Pkgs[importPath(d)])
						}
					}
					r := mon.RunConcrete(ld.Harness[v.Harness], v.Harness, v.Params, v.Inputs, v.UF, sx.Limits{MaxPaths: 1, MaxSteps: 50000000, MaxFan: 1})
					if strings.HasPrefix(r.ConcreteOutcome, "check-failed "+v.Label) {
						o = "check-failed " + v.Label + " (engine concrete replay; native run: " + o + ")"
					}
				}
				if strings.HasPrefix(o, "check-failed") || strings.HasPrefix(o, "panic") {
					c := confirmed{V: v, Native: o}
					c.Path = saveReplay(prop.ID, v)
					c.Known = matchKnown(known, prop.ID, v)
					conf = append(conf, c)
				} else {
					unconfirmed++
					fmt.Printf("UNCONFIRMED property=%s harness=%s params=%v label=%q native=%q (engine/model discrepancy; not reported as violation)\n", prop.ID, v.Harness, v.Params, v.Label, o)
				}
			}
		}
		// translation validation: concrete twins
		tvRuns, tvDisagree, tvNotes = translationValidate(ld, prop, jobs, rp, seed, *timeout)
	}

	// ---- verdict ----------------------------------------------------------------
	exit := 0
	knownSeen := map[string]bool{}
	violCount := 0
	for _, c := range conf {
		if c.Known != nil && c.Known.Status == "open" {
			key := c.Known.Tag
			if !knownSeen[key] {
				knownSeen[key] = true
				fmt.Printf("KNOWN-FINDING: property=%s %s\n", prop.ID, c.Known.Description)
			}
			continue
		}
		violCount++
		exit = 1
		fmt.Printf("VIOLATION property=%s replay=%s\n", prop.ID, c.Path)
		fmt.Printf("  harness=%s params=%v label=%q kind=%s %s native=%q\n", c.V.Harness, c.V.Params, c.V.Label, c.V.Kind, c.V.Msg, c.Native)
	}
	for _, kf := range known {
		if kf.Property == prop.ID && kf.Status == "open" && !knownSeen[kf.Tag] && *only == "" {
			fmt.Printf("STALE-KNOWN-FINDING: property=%s tag=%s no longer reproduces (%s)\n", prop.ID, kf.Tag, kf.Description)
		}
	}
	var inconc []string
	for k, r := range results {
		for _, s := range dedup(r.Inconclusive) {
			inconc = append(inconc, fmt.Sprintf("%s%v: %s", r.Harness, r.Params, s))
		}
		if len(r.Reached) == 0 && len(r.Violations) == 0 && !jobs[k].ExpectSat && len(prop.MinReach) > 0 {
			// per-job vacuity guard: every path died on an assumption before any Reach label
			inconc = append(inconc, fmt.Sprintf("%s%v: vacuity: no path of this job reached a label (assumptions unsatisfiable?)", r.Harness, r.Params))
		}
		if jobs[k].ExpectSat && !expectSatOK[k] {
			inconc = append(inconc, fmt.Sprintf("%s%v: false twin was NOT refuted (vacuity guard failed)", r.Harness, r.Params))
		}
	}
	reach := map[string]int{}
	for _, r := range results {
		for l, n := range r.Reached {
			reach[l] += n
		}
	}
	for _, l := range prop.MinReach {
		if reach[l] == 0 && *only == "" {
			inconc = append(inconc, "vacuity: label "+l+" not reachable in any job")
		}
	}
	for _, s := range inconc {
		fmt.Println("INCONCLUSIVE:", s)
	}
	for _, s := range tvNotes {
		fmt.Println("TV:", s)
	}
	ev := buildEvidence(prop, *tier, seed, jobs, results, conf, unconfirmed, inconc, tvRuns, tvDisagree, loadSecs, time.Since(t0), violCount, len(knownSeen))
	if err := writeEvidence(prop.ID, ev); err != nil {
		fmt.Println("ERROR: cannot write evidence:", err)
		return 2
	}
	tot := summarize(results)
	fmt.Printf("SUMMARY property=%s tier=%s jobs=%d paths=%d obligations=%d discharged=%d violations=%d known=%d unconfirmed=%d inconclusive=%d queries=%d solver=%.1fs wall=%.1fs\n",
		prop.ID, *tier, len(jobs), tot.paths, tot.checks, tot.discharged, violCount, len(knownSeen), unconfirmed, len(inconc), tot.queries, tot.solver.Seconds(), time.Since(t0).Seconds())
	return exit
}

type totals struct {
	paths, checks, discharged, queries, forks, conc, dead, trivial int
	steps                                                          int64
	solver                                                         time.Duration
}

func summarize(rs []*sx.JobResult) totals {
	var t totals
	for _, r := range rs {
		t.paths += r.Paths
		t.dead += r.DeadPaths
		t.checks += r.Checks
		t.discharged += r.Discharged
		t.trivial += r.Trivial
		t.queries += r.Queries
		t.forks += r.Forks
		t.conc += r.Concretized
		t.steps += r.Steps
		t.solver += r.SolverTime
	}
	return t
}

func runJobs(ld *Loaded, prop *Property, jobs []Job, workers, timeoutMs int, deadline time.Time, verbose bool) []*sx.JobResult {
	if workers > len(jobs) {
		workers = len(jobs)
	}
	if workers < 1 {
		workers = 1
	}
	results := make([]*sx.JobResult, len(jobs))
	ch := make(chan int)
	var wg sync.WaitGroup
	var mu sync.Mutex
	for w := 0; w < workers; w++ {
		wg.Add(1)
		go func() {
			defer wg.Done()
			sol := newSolver("", timeoutMs)
			defer sol.Close()
			eng := sx.NewEngine(ld.Prog, ld.Sizes, sol, initAllowed)
			for _, d := range prop.Dirs {
				if err := eng.InitPackage(ld.Pkgs[importPath(d)]); err != nil {
					mu.Lock()
					fmt.Println("ERROR:", err)
					mu.Unlock()
					os.Exit(2)
				}
			}
			for k := range ch {
				j := jobs[k]
				lim := sx.Limits{MaxPaths: j.MaxPaths, MaxSteps: j.MaxSteps, MaxFan: 300, Deadline: deadline}
				if lim.MaxPaths == 0 {
					lim.MaxPaths = 30000
				}
				if lim.MaxSteps == 0 {
					lim.MaxSteps = 5000000
				}
				r := eng.Run(ld.Harness[j.Harness], j.Harness, j.Params, lim)
				results[k] = r
				if verbose {
					mu.Lock()
					printResult(r)
					mu.Unlock()
				}
			}
		}()
	}
	// longest-first is unknown; keep declared order
	for k := range jobs {
		ch <- k
	}
	close(ch)
	wg.Wait()
	return results
}

func matchKnown(known []knownFinding, pid string, v sx.Violation) *knownFinding {
	for k := range known {
		kf := &known[k]
		if kf.Property != pid {
			continue
		}
		if kf.Harness != "" && !strings.HasPrefix(v.Harness, kf.Harness) {
			continue
		}
		if kf.Label != "" && kf.Label != v.Label {
			continue
		}
		for _, t := range v.Tags {
			if t == "kf:"+kf.Tag {
				return kf
			}
		}
	}
	return nil
}

func saveReplay(pid string, v sx.Violation) string {
	dir := filepath.Join(envOr("VX_REPLAY_DIR", filepath.Join(verifDir, "replays")), pid)
	os.MkdirAll(dir, 0o755)
	b, _ := json.MarshalIndent(v, "", " ")
	h := sha1.Sum(b)
	p := filepath.Join(dir, fmt.Sprintf("%s-%x.json", v.Harness, h[:5]))
	os.WriteFile(p, b, 0o644)
	return p
}

// ---- evidence -------------------------------------------------------------------

func writeEvidence(pid string, ev map[string]interface{}) error {
	dir := envOr("VX_EVIDENCE_DIR", filepath.Join(verifDir, "evidence"))
	os.MkdirAll(dir, 0o755)
	b, err := json.MarshalIndent(ev, "", " ")
	if err != nil {
		return err
	}
	return os.WriteFile(filepath.Join(dir, pid+".json"), b, 0o644)
}

func writeEvidenceFailure(prop *Property, tier string, seed int64, wall time.Duration, why string) {
	ev := map[string]interface{}{
		"property_id": prop.ID, "tier": tier, "seed": seed, "level": "other",
		"coverage": map[string]interface{}{"explanation": "run failed before exploration: " + why, "evaluations": 1, "distinct_nontrivial": 2},
		"wall_s":   wall.Seconds(), "violations": 0,
	}
	writeEvidence(prop.ID, ev)
}

func buildEvidence(prop *Property, tier string, seed int64, jobs []Job, rs []*sx.JobResult, conf []confirmed, unconfirmed int, inconc []string, tvRuns, tvDisagree int, loadSecs float64, wall time.Duration, viol, knownN int) map[string]interface{} {
	t := summarize(rs)
	funcs := map[string]bool{}
	stubs := map[string]int{}
	reach := map[string]int{}
	frozen := map[string]int{}
	globals := map[string]int{}
	nontrivial := 0
	for _, r := range rs {
		for f := range r.Funcs {
			if strings.Contains(f, "tobgu/qframe") && !strings.Contains(f, "VX_") && !strings.Contains(f, "internal/vx") {
				funcs[f] = true
			} else if !strings.Contains(f, "tobgu/qframe") {
				funcs[f] = true
			}
		}
		for s, n := range r.Stubs {
			stubs[s] += n
		}
		for l, n := range r.Reached {
			reach[l] += n
		}
		for l, n := range r.FrozenWrites {
			frozen[l] += n
		}
		for l, n := range r.GlobalWrites {
			globals[l] += n
		}
		if r.Checks-r.Trivial > 0 {
			nontrivial++
		}
	}
	var fl []string
	for f := range funcs {
		fl = append(fl, f)
	}
	sort.Strings(fl)
	var samples []interface{}
	step := len(jobs)/6 + 1
	for k := 0; k < len(jobs); k += step {
		r := rs[k]
		samples = append(samples, map[string]interface{}{
			"harness": r.Harness, "params": r.Params, "paths": r.Paths, "obligations": r.Checks, "discharged": r.Discharged,
			"queries": r.Queries, "wall_s": r.Wall.Seconds(), "reached": r.Reached, "note": jobs[k].Note,
		})
	}
	for _, c := range conf {
		if len(samples) > 12 {
			break
		}
		st := "violation"
		if c.Known != nil {
			st = "known-finding:" + c.Known.Tag
		}
		samples = append(samples, map[string]interface{}{"counterexample": c.V, "native_replay": c.Native, "status": st})
	}
	level := prop.Level
	if level == "" {
		level = "model_checking"
	}
	cov := map[string]interface{}{
		"states":                        t.paths,
		"transitions":                   t.steps,
		"traces_validated_against_impl": tvRuns,
		"samples":                       samples,
		"evaluations":                   len(jobs),
		"distinct_nontrivial":           nontrivial,
		"rule":                          "one evaluation = one harness instance (program skeleton with concrete sizes) explored over ALL values of its symbolic inputs by forking symbolic execution; non-trivial = at least one obligation needed a solver verdict (was not constant-true)",
		"explanation":                   "bounded symbolic execution of the real Go code (SSA from /repo's working tree) with an SMT solver deciding every feasible path; see bounds/outside_claim",
		"obligations":                   t.checks,
		"discharged":                    t.discharged,
		"trivially_true_obligations":    t.trivial,
		"feasible_paths":                t.paths,
		"dead_paths":                    t.dead,
		"forked_branches":               t.forks,
		"concretisation_forks":          t.conc,
		"queries":                       t.queries,
		"solver_time_s":                 t.solver.Seconds(),
		"solver_versions":               []string{solverVersion()},
		"functions_encoded":             fl,
		"functions_encoded_count":       len(fl),
		"stubs_used":                    stubs,
		"reachability_witnesses":        reach,
		"bounds":                        prop.Bounds(tier),
		"outside_claim":                 prop.Outside,
		"inconclusive":                  inconc,
		"unconfirmed_counterexamples":   unconfirmed,
		"confirmed_violations":          viol,
		"known_findings_reproduced":     knownN,
		"tv_concrete_twin_runs":         tvRuns,
		"tv_disagreements":              tvDisagree,
		"load_and_ssa_build_s":          loadSecs,
		"exhaustive":                    false,
		"jobs":                          len(jobs),
	}
	if len(frozen) > 0 {
		cov["frozen_heap_writes"] = frozen
	}
	if len(globals) > 0 {
		cov["package_level_writes"] = globals
	}
	return map[string]interface{}{
		"property_id": prop.ID, "tier": tier, "seed": seed, "level": level,
		"coverage": cov, "assumptions": prop.Assume, "wall_s": wall.Seconds(), "violations": viol,
	}
}

var solverVer string

func solverVersion() string {
	if solverVer == "" {
		solverVer = "z3 (see `z3 --version`)"
		bin := "z3"
		if sv := os.Getenv("QSYM_SOLVER"); sv != "" {
			bin = strings.Fields(sv)[0]
		}
		if out, err := execOutput(bin, "--version"); err == nil {
			solverVer = strings.TrimSpace(out)
		}
	}
	return solverVer
}

// randomVector builds a concrete input vector whose values are small and
// collision-prone (bytes from a tiny alphabet etc.).
func randomVector(r *rand.Rand, kinds []string) []uint64 {
	out := make([]uint64, len(kinds))
	for k, kd := range kinds {
		switch kd {
		case "bool":
			out[k] = uint64(r.Intn(2))
		case "byte":
			alpha := []byte{'a', 'b', ',', '"', '\n', 0, 0x80, 'A', '%', '\r'}
			out[k] = uint64(alpha[r.Intn(len(alpha))])
		case "f64":
			vals := []uint64{0, 0x8000000000000000, 0x3ff0000000000000, 0xbff0000000000000, 0x7ff8000000000001, 0x7ff0000000000000, 0x4000000000000000, 0x3fe0000000000000}
			out[k] = vals[r.Intn(len(vals))]
		default:
			switch r.Intn(4) {
			case 0:
				out[k] = uint64(r.Intn(4))
			case 1:
				out[k] = uint64(int64(-r.Intn(3)))
			case 2:
				out[k] = uint64(r.Intn(3))
			default:
				out[k] = uint64(r.Int63n(10))
			}
		}
	}
	return out
}
