// Package vxsql is the database/sql side of the verification intrinsics.
//
// Engine: every exported function and every method of *sql.Tx, *sql.Stmt,
// *sql.Rows reached from a vxsql.Tx() is replaced by a contract model of
// database/sql scripted by SetResult / Fail (see engine/sx/sqlmodel.go).
// Native (go test -overlay replay): a scripted in-memory driver registered with
// the real database/sql.
package vxsql

import (
	"database/sql"
	"database/sql/driver"
	"errors"
	"io"
)

var ErrBoom = errors.New("vxsql: scripted failure")

type script struct {
	cols    []string
	rows    [][]interface{}
	fail    string
	failAt  int
	execLog [][]interface{}
	execN   int
}

var cur script

// SetResult scripts the result set of the next query.
func SetResult(cols []string, rows [][]interface{}) {
	cur.cols, cur.rows = cols, rows
}

// Fail scripts a failure: what in {"prepare","query","next","exec"}; for "next"
// the result set ends with an error after `at` rows; for "exec" the at-th (0-based) Exec fails.
func Fail(what string, at int) { cur.fail, cur.failAt = what, at }

// Reset clears the script.
func Reset() { cur = script{} }

// ExecLog returns one entry per Exec: [query, arg0, arg1, ...] with arguments
// normalised as database/sql hands them to a driver (int64, float64, bool, string, nil).
func ExecLog() [][]interface{} { return cur.execLog }

var registered bool

// Tx returns a transaction on the scripted store.
func Tx() *sql.Tx {
	if !registered {
		sql.Register("vxsql", drv{})
		registered = true
	}
	db, err := sql.Open("vxsql", "")
	if err != nil {
		panic(err)
	}
	tx, err := db.Begin()
	if err != nil {
		panic(err)
	}
	return tx
}

type drv struct{}

func (drv) Open(string) (driver.Conn, error) { return conn{}, nil }

type conn struct{}

func (conn) Prepare(q string) (driver.Stmt, error) {
	if cur.fail == "prepare" {
		return nil, ErrBoom
	}
	return &stmt{q: q}, nil
}
func (conn) Close() error              { return nil }
func (conn) Begin() (driver.Tx, error) { return tx{}, nil }

type tx struct{}

func (tx) Commit() error   { return nil }
func (tx) Rollback() error { return nil }

type stmt struct{ q string }

func (s *stmt) Close() error  { return nil }
func (s *stmt) NumInput() int { return -1 }
func (s *stmt) Exec(args []driver.Value) (driver.Result, error) {
	n := cur.execN
	cur.execN++
	if cur.fail == "exec" && n == cur.failAt {
		return nil, ErrBoom
	}
	e := []interface{}{s.q}
	for _, a := range args {
		e = append(e, a)
	}
	cur.execLog = append(cur.execLog, e)
	return driver.RowsAffected(1), nil
}
func (s *stmt) Query(args []driver.Value) (driver.Rows, error) {
	if cur.fail == "query" {
		return nil, ErrBoom
	}
	return &rows{}, nil
}

type rows struct{ pos int }

var rowBuf = make([]byte, 256)

func (r *rows) Columns() []string { return cur.cols }
func (r *rows) Close() error      { return nil }
func (r *rows) Next(dest []driver.Value) error {
	if cur.fail == "next" && r.pos >= cur.failAt {
		return ErrBoom
	}
	if r.pos >= len(cur.rows) {
		for j := range rowBuf {
			rowBuf[j] = 'X'
		}
		return io.EOF
	}
	// []byte values live in the driver's row buffer, which is reused for every row: as the
	// database/sql contract says, they are only valid until the next call to Next
	for j := range rowBuf {
		rowBuf[j] = 'X'
	}
	off := 0
	for i := range dest {
		v := cur.rows[r.pos][i]
		if b, ok := v.([]byte); ok {
			n := copy(rowBuf[off:], b)
			v = rowBuf[off : off+n : off+n]
			off += n
		}
		dest[i] = v
	}
	r.pos++
	return nil
}
