// Package vx holds the verification intrinsics used by the harnesses.
//
// The symbolic executor (verif/engine/sx) intercepts every exported function of
// this package. The bodies below are the NATIVE implementation, used when a
// harness is compiled by `go test -overlay` to replay a solver model: inputs
// are read, in call order, from the JSON file named by $VX_REPLAY.
package vx

import (
	"bytes"
	"encoding/csv"
	"encoding/json"
	"fmt"
	"io"
	"math"
	"os"
	"strconv"
)

type ufEntry struct {
	Name string   `json:"name"`
	Args []uint64 `json:"args"`
	Res  uint64   `json:"res"`
}

type replay struct {
	Harness string            `json:"harness"`
	Params  map[string]string `json:"params"`
	Inputs  []uint64          `json:"inputs"`
	Kinds   []string          `json:"kinds"`
	UF      []ufEntry         `json:"uf"`
	Label   string            `json:"label"`
}

var (
	rp       replay
	loaded   bool
	pos      int
	Observed []string
	Failed   []string
	Reached  []string
)

type AssumeFailed struct{}
type CheckFailed struct{ Label string }

func load() {
	if loaded {
		return
	}
	loaded = true
	p := os.Getenv("VX_REPLAY")
	if p == "" {
		return
	}
	b, err := os.ReadFile(p)
	if err != nil {
		panic(err)
	}
	if err := json.Unmarshal(b, &rp); err != nil {
		panic(err)
	}
}

// Reset re-arms the replay vector (used by the native test driver).
func Reset() { loaded = false; pos = 0; Observed = nil; Failed = nil; Reached = nil; load() }

func HarnessName() string { load(); return rp.Harness }

func next() uint64 {
	load()
	if pos < len(rp.Inputs) {
		v := rp.Inputs[pos]
		pos++
		return v
	}
	pos++
	return 0
}

func Int() int         { return int(next()) }
func Int64() int64     { return int64(next()) }
func Uint32() uint32   { return uint32(next()) }
func Uint64() uint64   { return next() }
func Byte() byte       { return byte(next()) }
func Bool() bool       { return next() != 0 }
func Float64() float64 { return math.Float64frombits(next()) }

// IntN returns an arbitrary int in [lo,hi].
func IntN(lo, hi int) int {
	v := int(next())
	if v < lo || v > hi {
		panic(AssumeFailed{})
	}
	return v
}

func Bytes(n int) []byte {
	b := make([]byte, n)
	for i := range b {
		b[i] = Byte()
	}
	return b
}

func Str(n int) string { return string(Bytes(n)) }

func Assume(c bool) {
	if !c {
		panic(AssumeFailed{})
	}
}

func Check(c bool, label string) {
	if !c {
		Failed = append(Failed, label)
		panic(CheckFailed{label})
	}
}

func Reach(label string) { Reached = append(Reached, label) }

func Tag(label string) {}

func Observe(label string, xs ...interface{}) {
	Observed = append(Observed, label+"="+fmt.Sprint(xs...))
}

func ExpectPanic(label string) {}

func flat(args []interface{}) []uint64 {
	var out []uint64
	for _, a := range args {
		switch x := a.(type) {
		case int:
			out = append(out, uint64(x))
		case int64:
			out = append(out, uint64(x))
		case int32:
			out = append(out, uint64(uint32(x)))
		case uint32:
			out = append(out, uint64(x))
		case uint64:
			out = append(out, x)
		case uint8:
			out = append(out, uint64(x))
		case bool:
			if x {
				out = append(out, 1)
			} else {
				out = append(out, 0)
			}
		case float64:
			out = append(out, math.Float64bits(x))
		case string:
			for i := 0; i < len(x); i++ {
				out = append(out, uint64(x[i]))
			}
		case []byte:
			for i := 0; i < len(x); i++ {
				out = append(out, uint64(x[i]))
			}
		case *string:
			if x == nil {
				out = append(out, 0)
			} else {
				out = append(out, 1)
				for i := 0; i < len(*x); i++ {
					out = append(out, uint64((*x)[i]))
				}
			}
		default:
			panic(fmt.Sprintf("vx: unsupported UF argument %T", a))
		}
	}
	return out
}

func ufName(name string, args []interface{}) string {
	// the arity is part of the name (strings contribute one argument per byte)
	return name + "/" + strconv.Itoa(len(flat(args)))
}

func uf(name string, args []interface{}) uint64 {
	load()
	key := flat(args)
	nm := ufName(name, args)
outer:
	for _, e := range rp.UF {
		if e.Name != nm || len(e.Args) != len(key) {
			continue
		}
		for i := range key {
			if e.Args[i] != key[i] {
				continue outer
			}
		}
		return e.Res
	}
	return 0
}

func UFInt(name string, args ...interface{}) int         { return int(uf(name, args)) }
func UFBool(name string, args ...interface{}) bool       { return uf(name, args) != 0 }
func UFU64(name string, args ...interface{}) uint64      { return uf(name, args) }
func UFByte(name string, args ...interface{}) byte       { return byte(uf(name, args)) }
func UFFloat(name string, args ...interface{}) float64   { return math.Float64frombits(uf(name, args)) }

// HashModel is consulted by the replay-time substitute of internal/hash.
func HashModel(b []byte, seed uint64) (uint64, bool) {
	load()
	nm := "H" + strconv.Itoa(len(b))
outer:
	for _, e := range rp.UF {
		if e.Name != nm || len(e.Args) != len(b)+1 {
			continue
		}
		for i := range b {
			if e.Args[i] != uint64(b[i]) {
				continue outer
			}
		}
		if e.Args[len(b)] != seed {
			continue
		}
		return e.Res, true
	}
	return 0, false
}

// Freeze / FrozenWrites: the write monitor exists only inside the engine.
func Freeze(what string, xs ...interface{}) {}
func Thaw()                                 {}
func FrozenWrites() int                     { return 0 }

func param(name string) string {
	load()
	v, ok := rp.Params[name]
	if !ok {
		panic("vx: missing parameter " + name)
	}
	return v
}

func ParamStr(name string) string { return param(name) }
func ParamInt(name string) int {
	n, err := strconv.Atoi(param(name))
	if err != nil {
		panic(err)
	}
	return n
}
func ParamBool(name string) bool { return param(name) == "true" || param(name) == "1" }
func HasParam(name string) bool  { load(); _, ok := rp.Params[name]; return ok }

// Symbolic reports whether the harness runs inside the symbolic executor.
func Symbolic() bool { return false }

// ---- batch replay (native test driver) --------------------------------------

var batch []replay

// LoadBatch reads the JSON array of replay records named by $VX_BATCH.
func LoadBatch() int {
	p := os.Getenv("VX_BATCH")
	if p == "" {
		return 0
	}
	b, err := os.ReadFile(p)
	if err != nil {
		panic(err)
	}
	if err := json.Unmarshal(b, &batch); err != nil {
		panic(err)
	}
	return len(batch)
}

// Select arms record i of the batch.
func Select(i int) {
	rp = batch[i]
	loaded = true
	pos = 0
	Observed = nil
	Failed = nil
	Reached = nil
}

// ---- fork-free logic (the engine builds terms instead of branching) ---------

func And(a, b bool) bool { return a && b }
func Or(a, b bool) bool  { return a || b }
func Not(a bool) bool    { return !a }
func Implies(a, b bool) bool { return !a || b }

// IteInt returns a if c else b.
func IteInt(c bool, a, b int) int {
	if c {
		return a
	}
	return b
}

// B2I converts a bool to 0/1.
func B2I(c bool) int {
	if c {
		return 1
	}
	return 0
}

// ConstrainHash restricts the engine's uninterpreted hash model: the low `bits`
// bits of every hash value lie in `allowed` (a stated bound on the explored
// collision patterns). No effect natively.
func ConstrainHash(bits int, allowed ...int) {}

// ModelCSVWriter makes the engine replace encoding/csv.Writer by a recording
// model for the rest of the path (the quoting layer is then outside the claim).
func ModelCSVWriter() {}

// RealDigits disables the engine's number-text model for internal/ryu (C16).
func RealDigits() {}

// ModelJSONDecoder makes the engine use f in place of encoding/json's Decoder.Decode (which is
// reflection driven and cannot be executed symbolically): f reads the document and returns the
// decoded value of the destination's type. Natively the real decoder runs, f is ignored.
func ModelJSONDecoder(f func(r io.Reader) (interface{}, error)) {}

// JSONStream is what a harness provides for ModelJSONStream: the entry points of
// encoding/json.Decoder that the library may use.
type JSONStream interface {
	Token() (interface{}, error)
	More() bool
	Decode(v interface{}) error
}

// ModelJSONStream makes the engine use the object returned by f in place of every
// encoding/json.Decoder created with json.NewDecoder (methods Token, More, Decode).
// Natively the real decoder runs, f is ignored.
func ModelJSONStream(f func(r io.Reader) JSONStream) {}

// CSVRecords returns the records written through the modelled csv.Writer; the
// native implementation parses the bytes actually written with encoding/csv.
func CSVRecords(written []byte) [][]string {
	r := csv.NewReader(bytes.NewReader(written))
	r.FieldsPerRecord = -1
	recs, err := r.ReadAll()
	if err != nil {
		panic(err)
	}
	return recs
}

// SharedWrites is the number of mutations of package-level variables, sync.Map,
// sync.Once seen by the engine on this path (0 natively).
func SharedWrites() int { return 0 }

// FreezeGlobals adds everything reachable from tobgu/qframe's package-level
// variables to the frozen set (engine only).
func FreezeGlobals() {}
