#!/usr/bin/env python3
"""Regenerates /verif/MANIFEST.json from the table below (keeps it schema-valid)."""
import json, os
V = os.path.dirname(os.path.dirname(os.path.abspath(__file__)))
props = [json.loads(l) for l in open(os.path.join(V, "properties.jsonl"))]
ids = [p["id"] for p in props]

# id -> (category, text, design_ref, level_note)
claimed = json.load(open(os.path.join(V, "tools", "claims.json")))
na = json.load(open(os.path.join(V, "tools", "not_applicable.json")))

checks = []
for pid in ids:
    if pid not in claimed:
        continue
    c = claimed[pid]
    checks.append({
        "property_id": pid,
        "quick_cmd": f"./bin/qsym check -property {pid} -tier quick",
        "thorough_cmd": f"./bin/qsym check -property {pid} -tier thorough",
        "evidence_file": f"/verif/evidence/{pid}.json",
        "replay_cmd_template": "./bin/qsym replay {path}",
        "engine": "qsym",
        "level_claimed": {"category": c["category"], "text": c["text"], "design_ref": c["design_ref"]},
        "level_note": c["level_note"],
        "technique": c.get("technique", "bounded symbolic execution of the Go SSA of /repo (own executor forked from x/tools ssa/interp) with z3 deciding every path and obligation; counterexamples replayed natively"),
    })
m = {
    "version": 1,
    "setup_cmd": "cd engine && GOFLAGS=-mod=mod GOPROXY=off GOSUMDB=off GOTOOLCHAIN=local go build -o ../bin/qsym ./cmd/qsym",
    "hooks": {
        "guard": "verif",
        "enable": "no source hooks: harnesses and the vx intrinsics package are injected with go/packages Overlay (engine) and `go test -overlay` (native replay); /repo's working tree is never written",
        "baseline_off_cmd": "cd /repo && go test -vet=off -count=1 ./...",
        "source_commits": [],
        "add_only": True,
    },
    "engines": [{"name": "qsym", "path": "engine", "serves_properties": sorted(claimed.keys()),
                 "kind_free_text": "bounded symbolic executor for Go SSA (fork of golang.org/x/tools/go/ssa/interp v0.29.0 with symbolic leaves) + persistent z3 process; regenerates the encoding from /repo on every run"}],
    "checks": checks,
    "notes": "All checks: exit 0 = every obligation explored was discharged (unsat) within the stated bounds; exit 1 + VIOLATION line = solver counterexample that reproduced natively. INCONCLUSIVE lines reduce the stated coverage and are listed in the evidence. Fixed defects of tobgu/qframe are recorded in known_findings.json.",
    "not_applicable": [{"property_id": p, "reason": na.get(p, "check not built yet")} for p in ids if p not in claimed],
}
json.dump(m, open(os.path.join(V, "MANIFEST.json"), "w"), indent=1)
print("claimed:", sorted(claimed.keys()))
