#!/usr/bin/env python3
"""Confirm and evaluate seeded defects.

  seeded.py confirm <prop> <k> <outdir>   confirm change k produced under <outdir> in a fresh scratch worktree,
                                          and store it as /verif/seeded/<prop>-<k>/ if everything holds
  seeded.py eval [<id> ...] [--tier quick|thorough] [--workers N] [--verif-dir D --key K]
                                          (--verif-dir: run the checks of another copy of /verif, e.g. a snapshot of an
                                           earlier commit, and store the outcome under eval[K] without touching the table)
                                          apply each stored patch to /repo, run the property's check, undo, record
  seeded.py table                         regenerate /verif/seeded/README.md
"""
import json, os, re, shutil, subprocess, sys, tempfile, time

V = "/verif"
ENV = dict(os.environ, GOFLAGS="-mod=mod", GOPROXY="off", GOSUMDB="off", GOTOOLCHAIN="local")

def sh(cmd, cwd=None, timeout=3600):
    p = subprocess.run(cmd, shell=True, cwd=cwd, env=ENV, capture_output=True, text=True, timeout=timeout)
    return p.returncode, p.stdout + p.stderr

def confirm(prop, k, outdir):
    patch = os.path.join(outdir, f"patch{k}.diff")
    demo = os.path.join(outdir, f"demo{k}_test.go")
    notes = os.path.join(outdir, f"notes{k}.md")
    if not (os.path.exists(patch) and os.path.exists(demo)):
        print("missing patch or demo"); return False
    wt = tempfile.mkdtemp(prefix="conf-", dir="/tmp")
    os.rmdir(wt)
    rc, out = sh(f"git -C /repo worktree add --detach {wt} HEAD")
    if rc: print(out); return False
    try:
        src = open(demo).read()
        m = re.search(r"^package (\w+)", src, re.M)
        pkg = m.group(1)
        # where does the demo go? look for a directory hint, default: root for package qframe/qframe_test
        ddir = wt
        hint = re.search(r"(internal/[\w/]+|config/\w+|filter|function|aggregation|types|qerrors)", src.split("package")[0])
        if pkg not in ("qframe", "qframe_test") and hint:
            ddir = os.path.join(wt, hint.group(1))
        elif pkg not in ("qframe", "qframe_test"):
            # find a dir whose package name matches
            rc, out = sh(f"grep -rl '^package {pkg.replace('_test','')}$' --include=*.go . | head -1", cwd=wt)
            if out.strip(): ddir = os.path.join(wt, os.path.dirname(out.strip().splitlines()[0]))
        rel = os.path.relpath(ddir, wt)
        res = {"prop": prop, "k": k, "demo_dir": rel}
        rc, out = sh(f"git apply {patch}", cwd=wt)
        res["applies"] = rc == 0
        if rc: print("patch does not apply:", out); return False
        rc, out = sh("go build ./...", cwd=wt); res["builds"] = rc == 0
        if rc: print("does not build", out[-500:]); return False
        rc, out = sh("go test -vet=off -count=1 ./...", cwd=wt, timeout=1800); res["suite_passes_with_change"] = rc == 0
        if rc: print("suite fails with change:", out[-800:]); return False
        shutil.copy(demo, os.path.join(ddir, f"zz_seeded{k}_test.go"))
        race = "-race " if "race" in src.lower() and prop == "C11" else ""
        rc, out = sh(f"go test {race}-vet=off -count=1 -run 'TestSeeded' ./{rel}", cwd=wt, timeout=900); res["demo_fails_with_change"] = rc != 0
        demo_out = out[-600:]
        if rc == 0: print("demo PASSES with the change"); return False
        sh(f"git apply -R {patch}", cwd=wt)
        rc, out = sh(f"go test {race}-vet=off -count=1 -run 'TestSeeded' ./{rel}", cwd=wt, timeout=900); res["demo_passes_without_change"] = rc == 0
        if rc: print("demo FAILS without the change:", out[-600:]); return False
        d = os.path.join(V, "seeded", f"{prop}-{k}")
        os.makedirs(d, exist_ok=True)
        shutil.copy(patch, os.path.join(d, "patch.diff"))
        shutil.copy(demo, os.path.join(d, "demo_test.go"))
        if os.path.exists(notes): shutil.copy(notes, os.path.join(d, "notes.md"))
        meta = {"property": prop, "id": f"{prop}-{k}", "demo_dir": rel, "race": bool(race),
                "needs": first_para(notes), "confirmed": res,
                "ran": ["git apply patch.diff", "go build ./...", "go test -vet=off -count=1 ./... (passes)",
                        f"go test {race}-run TestSeeded ./{rel} (fails with change, passes without)"],
                "demo_output_with_change": demo_out}
        json.dump(meta, open(os.path.join(d, "meta.json"), "w"), indent=1)
        print("confirmed ->", d)
        return True
    finally:
        sh(f"git -C /repo worktree remove --force {wt}")

def first_para(path):
    try:
        t = open(path).read().strip()
        return t[:900]
    except Exception:
        return ""

def evaluate(ids, tier, scratch=True, vdir=None, key=None, workers=0):
    """scratch=True: evaluate against a scratch worktree of /repo (VX_REPO), so that other runs are not disturbed;
    scratch=False: the official procedure (git -C /repo apply; run; git -C /repo checkout -- .)."""
    base = os.path.join(V, "seeded")
    if not ids:
        ids = sorted(d for d in os.listdir(base) if os.path.isdir(os.path.join(base, d)))
    repo = "/repo"
    if scratch:
        repo = tempfile.mkdtemp(prefix="evalrepo-", dir="/tmp"); os.rmdir(repo)
        rc, out = sh(f"git -C /repo worktree add --detach {repo} HEAD")
        if rc: print(out); sys.exit(2)
    else:
        rc, out = sh("git -C /repo status --porcelain")
        if out.strip():
            print("refusing: /repo is not clean"); sys.exit(2)
    try:
        for sid in ids:
            d = os.path.join(base, sid)
            meta = json.load(open(os.path.join(d, "meta.json")))
            prop = meta["property"]
            rc, out = sh(f"git -C {repo} apply {d}/patch.diff")
            if rc:
                print(sid, "patch does not apply", out); continue
            try:
                t0 = time.time()
                env = f"VX_REPO={repo} VX_EVIDENCE_DIR=/tmp/seeded-evidence-{os.getpid()} VX_REPLAY_DIR=/tmp/seeded-replays-{os.getpid()}"
                if vdir: env += f" VX_VERIF={vdir}"
                wk = f" -workers {workers}" if workers else ""
                rc, out = sh(f"{env} ./bin/qsym check -property {prop} -tier {tier}{wk}", cwd=vdir or V, timeout=7200)
                viol = [l for l in out.splitlines() if l.startswith("VIOLATION") or l.startswith("  harness=")]
                summ = [l for l in out.splitlines() if l.startswith("SUMMARY")]
                incon = [l for l in out.splitlines() if l.startswith("INCONCLUSIVE") or l.startswith("UNCONFIRMED") or l.startswith("ERROR")]
                meta = json.load(open(os.path.join(d, "meta.json")))
                meta.setdefault("eval", {})[key or tier] = {"exit": rc, "caught": rc == 1, "wall_s": round(time.time() - t0, 1), "against": "scratch worktree of /repo" if scratch else "/repo",
                                                    "violations": viol[:6], "summary": summ[-1:], "other": incon[:4]}
                json.dump(meta, open(os.path.join(d, "meta.json"), "w"), indent=1)
                print(sid, tier, "exit", rc, "CAUGHT" if rc == 1 else "MISSED", f"{time.time()-t0:.0f}s", (viol[1] if len(viol) > 1 else "")[:170], (incon[0] if incon and rc != 1 else "")[:160])
            finally:
                sh(f"git -C {repo} checkout -- .")
                sh(f"git -C {repo} clean -fdq")
    finally:
        if scratch:
            sh(f"git -C /repo worktree remove --force {repo}")
    if not key:
        table()

def table():
    base = os.path.join(V, "seeded")
    rows = []
    for sid in sorted(os.listdir(base)):
        mp = os.path.join(base, sid, "meta.json")
        if not os.path.exists(mp): continue
        m = json.load(open(mp))
        ev = m.get("eval", {})
        q = ev.get("quick", {}); t = ev.get("thorough", {})
        def st(e):
            if not e: return "-"
            return "caught" if e.get("caught") else f"missed (exit {e.get('exit')})"
        lab = ""
        for e in (q, t):
            for l in e.get("violations", []):
                mm = re.search(r'label="([^"]*)"', l)
                if mm: lab = mm.group(1); break
            if lab: break
        need = (m.get("needs", "").replace("\n", " "))[:140]
        rows.append(f"| {sid} | {m['property']} | {st(q)} | {st(t)} | {lab} | {m.get('summary', need)} |")
    with open(os.path.join(base, "README.md"), "w") as f:
        f.write("# Seeded changes and which checks catch them\n\nEach directory holds `patch.diff` (the change to tobgu/qframe), `demo_test.go` (fails with the change, passes without), `notes.md` (author's description) and `meta.json` (what was confirmed and how, evaluation results). The changes were written by independent sub-agents that saw only the property text. Apply with `git -C /repo apply <dir>/patch.diff`, undo with `git -C /repo checkout -- .`.\n\n| id | property | quick check | thorough check | violated obligation | what the change is / needs |\n|----|----|----|----|----|----|\n")
        f.write("\n".join(rows) + "\n")
    print("table written,", len(rows), "rows")

if __name__ == "__main__":
    a = sys.argv[1:]
    if a and a[0] == "confirm":
        sys.exit(0 if confirm(a[1], int(a[2]), a[3]) else 1)
    elif a and a[0] == "eval":
        tier = "quick"
        if "--tier" in a:
            tier = a[a.index("--tier") + 1]; a = [x for x in a if x not in ("--tier", tier)]
        scratch = "--in-repo" not in a
        a = [x for x in a if x != "--in-repo"]
        opts = {}
        for o in ("--verif-dir", "--key", "--workers"):
            if o in a:
                opts[o] = a[a.index(o) + 1]; k = a.index(o); del a[k:k + 2]
        evaluate(a[1:], tier, scratch, opts.get("--verif-dir"), opts.get("--key"), int(opts.get("--workers", 0)))
    elif a and a[0] == "table":
        table()
    else:
        print(__doc__)
