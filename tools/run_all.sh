#!/bin/bash
# Runs every claimed check (quick tier by default) and prints one line per property.
tier=${1:-quick}
cd "$(dirname "$0")/.."
for p in $(python3 -c "import json;print(' '.join(c['property_id'] for c in json.load(open('MANIFEST.json'))['checks']))"); do
  s=$(date +%s)
  out=$(timeout 3600 ./bin/qsym check -property $p -tier $tier 2>&1)
  rc=$?
  e=$(date +%s)
  echo "$p rc=$rc $((e-s))s $(echo "$out" | grep '^SUMMARY' | cut -c1-260)"
  echo "$out" | grep '^VIOLATION\|^INCONCLUSIVE\|^UNCONFIRMED\|^TV:\|^ERROR\|^KNOWN' | cut -c1-300 | head -8
done
